"""C13 — spatial selection returns exactly what lies inside the box.

Oracle: a pure-Python point-in-closed-box loop (no numpy broadcasting, nothing shared with
utils.mask_by_extent) over lattice coordinates and integer / half-integer box bounds, so "on the
face" is exact.  Masks for point clouds, curves, surfaces, drillholes (collar rule), block models,
octrees and 2-D grids (rotated / dipped ones with a guard band around the faces), 2-D and 3-D
extents, inverse on and off; copies by extent compared coordinate-wise through tags (each datum is
a function of the tag of its vertex / cell)."""
from __future__ import annotations

import gc
import math
import random

import numpy as np

PROP = "C13"
LEVEL = "exploration"
RULE = (
    "case = batch of (object, box, inverse) triples on an integer lattice: box kinds {enclosing, partial, face-touching, "
    "degenerate min==max, disjoint, half-integer}; object kinds {Points, Curve, Surface (with unused vertices), Drillhole, "
    "BlockModel, Octree, Grid2D (also rotated/dipped), groups}; 2-D and 3-D extents. Non-trivial = object with >= 3 "
    "elements and a box that splits it; distinct = (class, box kind, dims, inverse, outcome class)."
)
ASSUMPTIONS = [
    "closed box; elevation ignored for 2-column extents; None allowed only when the bounding boxes miss or nothing qualifies (an all-false mask is equally acceptable then)",
    "for rotated/dipped 2-D grids boxes keep every centroid > 1e-6 away from a face",
]


def floors(tier):
    return {"C13.mask": 1500, "C13.none": 1500, "on-face-points": 100, "cls:Points": 100, "cls:Curve": 100, "cls:Surface": 100, "cls:BlockModel": 60, "cls:Octree": 60, "cls:Grid2D": 100, "cls:Drillhole": 60, "inverse": 400, "extent-2d": 400, "extent-3d": 400, "copies": 200, "C13.copy-geom": 150, "C13.copy-data": 150, "C13.grid2d": 60, "C13.source-unchanged": 300, "C13.copy-stored": 150, "outcome:none-bbox": 30, "outcome:none-empty": 30}


def gen_cases(tier, seed):
    n = 270 if tier == "quick" else 5400
    kinds = ["Points", "Curve", "Surface", "BlockModel", "Octree", "Grid2D", "Grid2Drot", "Drillhole", "Group"]
    return [{"kind": kinds[i % len(kinds)], "count": 16, "copy": (i // len(kinds)) % 2 == 0} for i in range(n)]


# ------------------------------------------------------------------------------------------
def inside(p, box, dims):
    for a in range(dims):
        if not (box[0][a] <= p[a] <= box[1][a]):
            return False
    return True


def on_face(p, box, dims):
    return inside(p, box, dims) and any(p[a] == box[0][a] or p[a] == box[1][a] for a in range(dims))


def bbox_hit(pts, box, dims):
    for a in range(dims):
        lo, hi = min(p[a] for p in pts), max(p[a] for p in pts)
        if max(lo, box[0][a]) > min(hi, box[1][a]):
            return False
    return True


def rand_box(rng, pts, dims, style=None):
    lo = [min(p[a] for p in pts) for a in range(3)]
    hi = [max(p[a] for p in pts) for a in range(3)]
    style = style or rng.choice(["enclosing", "partial", "partial", "touch", "degenerate", "disjoint", "half"])
    b0, b1 = [], []
    strip_axis, strip_at = rng.randrange(2), rng.choice(pts)
    for a in range(dims):
        if style == "strip":
            # a thin slab through one element, long in the other directions: on a rotated grid it picks non-adjacent rows / columns
            x0, x1 = (strip_at[a] - 0.3, strip_at[a] + 0.3) if a == strip_axis else (lo[a] - 1, hi[a] + 1)
        elif style == "corner-of-rotated":
            # the low end along the first axis and the high end along the second: where a rotated grid swings out of its unrotated footprint
            x0, x1 = (lo[a] - 0.5, lo[a] + 2.3) if a == 0 else ((hi[a] - 2.3, hi[a] + 0.5) if a == 1 else (lo[a] - 1, hi[a] + 1))
        elif style == "enclosing":
            x0, x1 = lo[a] - 1, hi[a] + 1
        elif style == "disjoint":
            x0, x1 = (hi[a] + 2, hi[a] + 5) if a == 0 else (lo[a] - 1, hi[a] + 1)
        elif style == "degenerate":
            v = rng.choice([p[a] for p in pts])
            x0, x1 = v, v
        elif style == "touch":
            x0, x1 = hi[a], hi[a] + 3
        elif style == "half":
            m = rng.randint(int(lo[a]), int(hi[a])) + 0.5
            x0, x1 = lo[a] - 1, m
        else:
            c0 = rng.randint(int(math.floor(lo[a])) - 1, int(math.ceil(hi[a])))
            c1 = rng.randint(c0, int(math.ceil(hi[a])) + 1)
            x0, x1 = c0, c1
        b0.append(float(x0))
        b1.append(float(x1))
    return [b0, b1], style


def lattice_points(rng, n):
    pts = set()
    while len(pts) < n:
        pts.add((float(rng.randint(0, 6)), float(rng.randint(0, 5)), float(rng.randint(0, 3))))
    pts = sorted(pts)
    rng.shuffle(pts)
    return pts


def expect_vertex_mask(pts, box, dims, inverse):
    return [inside(p, box, dims) != inverse for p in pts]


def expect_cell_object(pts, cells, box, dims, inverse):
    vm = expect_vertex_mask(pts, box, dims, inverse)
    keep_cells = [all(vm[i] for i in c) for c in cells]
    used = set(i for c, k in zip(cells, keep_cells) if k for i in c)
    return [vm[i] and i in used for i in range(len(pts))], keep_cells


def judge_mask(rec, cls, got, exp, pts, box, dims, inverse, style):
    """got: library mask or None; exp: expected list of bool."""
    hit = bbox_hit(pts, box, dims)
    any_exp = any(exp)
    attr = f"{dims}d{':inverse' if inverse else ''}"
    rec.see("cls:" + cls)
    rec.see("extent-%dd" % dims)
    if inverse:
        rec.see("inverse")
    if any(on_face(p, box, dims) for p in pts):
        rec.see("on-face-points")
    rec.evals["C13.none"] += 1
    if got is None:
        if not hit:
            rec.see("outcome:none-bbox")
        elif not any_exp:
            rec.see("outcome:none-empty")
        else:
            rec.fail("C13.none", op="mask_by_extent", cls=cls, attr=attr, detail=f"None returned although the box {box} hits the bounding box and {sum(exp)} elements qualify ({style})", counted=True)
        return None
    g = [bool(x) for x in np.asarray(got).tolist()]
    ok = g == exp
    rec.check("C13.mask", ok, op="mask_by_extent", cls=cls, attr=attr, detail=f"box={box} {style} inverse={inverse}: mask {g} expected {exp} for elements {pts[:12]}")
    rec.see("outcome:mask-all-false" if not any(g) else "outcome:mask")
    return g if ok else None


def f_tag(x):
    return 10.0 * x + 0.5


# ------------------------------------------------------------------------------------------
def run_case(case, rec):
    from geoh5py.workspace import Workspace

    rng = random.Random(case["seed"])
    ws = Workspace()
    shapes = []
    try:
        for j in range(case["count"]):
            dims = rng.choice([2, 3])
            inverse = rng.random() < 0.35
            fn = {"Points": do_points, "Curve": do_cells, "Surface": do_cells, "BlockModel": do_block, "Octree": do_octree, "Grid2D": do_grid2d, "Grid2Drot": do_grid2d, "Drillhole": do_hole, "Group": do_group}[case["kind"]]
            shapes.append(fn(case, rec, rng, ws, dims, inverse, case["copy"] and j % 2 == 0))
    finally:
        ws.close()
    rec.shape = [case["kind"], shapes]
    rec.sample = {"kind": case["kind"], "last": shapes[-1] if shapes else None}
    rec.nontrivial = True
    gc.collect()


def stored_values(ws, child):
    """The child's values as they sit in the file (plain h5py on the workspace's own handle), no-data code mapped to NaN."""
    h5 = ws.geoh5
    node = h5[list(h5)[0]]["Data"]["{" + str(child.uid) + "}"]
    if "Data" not in node:
        return None
    arr = np.asarray(node["Data"][()], dtype=float)
    return np.where(np.isclose(arr, 1.175494351e-38, rtol=1e-6, atol=0), np.nan, arr)


def same_values(a, b):
    if a is None or b is None:
        return a is None and b is None
    a, b = list(np.asarray(a, dtype=float)), list(np.asarray(b, dtype=float))
    return len(a) == len(b) and all((x == y) or (x != x and y != y) for x, y in zip(a, b))


def after_copy(rec, ws, cls, obj, new, originals, attr):
    """A selection never disturbs its source (live and stored), and what the copy shows is what was stored for it."""
    for name, exp in originals.items():
        src = [c for c in obj.children if getattr(c, "name", None) == name and isinstance(getattr(c, "values", None), np.ndarray)]
        if not src:
            rec.fail("C13.source-unchanged", op="copy_from_extent", cls=cls, attr=attr, detail=f"source data {name!r} disappeared after the selection")
            continue
        rec.check("C13.source-unchanged", same_values(src[0].values, exp), op="copy_from_extent", cls=cls, attr=attr + ":live", detail=f"source data {name!r} after the selection: {np.asarray(src[0].values).tolist()}, before: {np.asarray(exp).tolist()}")
        rec.check("C13.source-unchanged", same_values(stored_values(ws, src[0]), exp), op="copy_from_extent", cls=cls, attr=attr + ":stored", detail=f"stored source data {name!r} after the selection: {stored_values(ws, src[0])}, before: {np.asarray(exp).tolist()}")
    if new is None:
        return
    for child in new.children:
        v = getattr(child, "values", None)
        if isinstance(v, np.ndarray) and v.dtype.kind == "f":
            st = stored_values(ws, child)
            if st is not None and len(st) < len(v):
                st = np.r_[st, np.full(len(v) - len(st), np.nan)]
            rec.check("C13.copy-stored", same_values(st, v), op="copy_from_extent", cls=cls, attr=attr, detail=f"copied data {child.name!r} shows {v.tolist()} but the file holds {None if st is None else st.tolist()}")


def do_points(case, rec, rng, ws, dims, inverse, copy):
    from geoh5py.objects import Points

    pts = lattice_points(rng, rng.randint(3, 9))
    # the x coordinate alone is not unique on the lattice: data are a function of the vertex index tag
    obj = Points.create(ws, vertices=np.array(pts), name="p")
    vals = np.array([f_tag(i) for i in range(len(pts))])
    obj.add_data({"d": {"values": vals.copy(), "association": "VERTEX"}})
    box, style = rand_box(rng, pts, dims)
    exp = expect_vertex_mask(pts, box, dims, inverse)
    got = obj.mask_by_extent(np.array(box), inverse=inverse)
    judge_mask(rec, "Points", got, exp, pts, box, dims, inverse, style)
    if copy:
        rec.see("copies")
        for inv in [inverse, not inverse][: 2 if rng.random() < 0.5 else 1]:  # sometimes both selections from the same live source
            e2 = expect_vertex_mask(pts, box, dims, inv)
            new = obj.copy_from_extent(np.array(box), inverse=inv)
            judge_vertex_copy(rec, "Points", new, pts, None, e2, None, vals, None, box, style, dims, inv)
            after_copy(rec, ws, "Points", obj, new, {"d": vals}, f"{dims}d")
    return ["Points", style, dims, inverse, "none" if got is None else "mask"]


def do_cells(case, rec, rng, ws, dims, inverse, copy):
    from geoh5py.objects import Curve, Surface

    cls = case["kind"]
    pts = lattice_points(rng, rng.randint(4, 9))
    n = len(pts)
    if cls == "Curve":
        cells = [[i, i + 1] for i in range(n - 1) if rng.random() < 0.8] or [[0, 1]]
    else:
        cells = [sorted(rng.sample(range(n - 1), 3)) for _ in range(rng.randint(2, 5))]  # last vertex never used
    obj = (Curve if cls == "Curve" else Surface).create(ws, vertices=np.array(pts), cells=np.array(cells, dtype="uint32"), name="c")
    vvals = np.array([f_tag(i) for i in range(n)])
    cvals = np.array([f_tag(100 + j) for j in range(len(cells))])
    entries = [("vd", {"values": vvals.copy(), "association": "VERTEX"}), ("cd", {"values": cvals.copy(), "association": "CELL"})]
    if rng.random() < 0.5:
        entries.append(("od", {"values": "a remark on the whole object", "association": "OBJECT"}))
    rng.shuffle(entries)  # the children come in any order of association
    rec.see("child-order:" + "".join(k[0] for k, _ in entries))
    obj.add_data(dict(entries))
    box, style = rand_box(rng, pts, dims)
    exp, keep_cells = expect_cell_object(pts, cells, box, dims, inverse)
    got = obj.mask_by_extent(np.array(box), inverse=inverse)
    judge_mask(rec, cls, got, exp, pts, box, dims, inverse, style)
    # the same selection asked of the data themselves: one entry per cell for cell data (a cell qualifies when all its vertices
    # do, under the direct or the complementary test), one per vertex for vertex data
    for dname, want in (("cd", keep_cells), ("vd", expect_vertex_mask(pts, box, dims, inverse))):
        dd = obj.get_data(dname)[0]
        gm = dd.mask_by_extent(np.array(box), inverse=inverse)
        rec.see("data-level-masks")
        if gm is None:
            rec.check("C13.none", not (bbox_hit(pts, box, dims) and any(want)) or inverse, op="Data.mask_by_extent", cls=cls, attr=f"{dims}d{':inverse' if inverse else ''}:{dname}", detail=f"None returned although {sum(want)} entries qualify; box={box} {style}")
        else:
            rec.check("C13.mask", [bool(x) for x in np.asarray(gm).tolist()] == [bool(x) for x in want], op="Data.mask_by_extent", cls=cls, attr=f"{dims}d{':inverse' if inverse else ''}:{dname}", detail=f"box={box} {style} inverse={inverse}: {dname} mask {np.asarray(gm).astype(int).tolist()} expected {[int(x) for x in want]} (cells {cells}, vertices {pts[:10]})")
    if copy:
        rec.see("copies")
        for inv in [inverse, not inverse][: 2 if rng.random() < 0.5 else 1]:
            e2, k2 = expect_cell_object(pts, cells, box, dims, inv)
            new = obj.copy_from_extent(np.array(box), inverse=inv)
            judge_vertex_copy(rec, cls, new, pts, cells, e2, k2, vvals, cvals, box, style, dims, inv)
            after_copy(rec, ws, cls, obj, new, {"vd": vvals, "cd": cvals}, f"{dims}d")
    return [cls, style, dims, inverse, "none" if got is None else "mask"]


def judge_vertex_copy(rec, cls, new, pts, cells, exp, keep_cells, vvals, cvals, box, style, dims, inverse):
    attr = f"{dims}d{':inverse' if inverse else ''}"
    hit = bbox_hit(pts, box, dims)
    if new is None:
        rec.check("C13.none", not (hit and any(exp)), op="copy_from_extent", cls=cls, attr=attr, detail=f"copy_from_extent returned None although {sum(exp)} elements qualify; box={box} {style}")
        return
    if not any(exp):
        # nothing qualifies: an empty object is as acceptable as None
        nv = new.n_vertices or 0
        rec.check("C13.copy-geom", nv == 0, op="copy_from_extent", cls=cls, attr=attr, detail=f"nothing qualifies but the copy has {nv} vertices")
        return
    want = [pts[i] for i, m in enumerate(exp) if m]
    got = [tuple(v) for v in new.vertices.tolist()] if new.vertices is not None else []
    rec.check("C13.copy-geom", got == want, op="copy_from_extent", cls=cls, attr=attr, detail=f"copied vertices {got} expected {want}; box={box}")
    index_of = {i: k for k, i in enumerate(i for i, m in enumerate(exp) if m)}
    for child in new.children:
        vals = getattr(child, "values", None)
        if not isinstance(vals, np.ndarray):
            continue
        if child.name == "vd" or child.name == "d":
            e = [vvals[i] for i, m in enumerate(exp) if m]
            rec.check("C13.copy-data", list(vals) == e, op="copy_from_extent", cls=cls, attr="vertex-data", detail=f"vertex data {vals.tolist()} expected {e}")
        elif child.name == "cd":
            e = [cvals[j] for j, k in enumerate(keep_cells) if k]
            rec.check("C13.copy-data", list(vals) == e, op="copy_from_extent", cls=cls, attr="cell-data", detail=f"cell data {vals.tolist()} expected {e}")
    if cells is not None:
        wc = [tuple(pts[i] for i in c) for c, k in zip(cells, keep_cells) if k]
        gc_ = new.cells
        gotc = [tuple(tuple(new.vertices[i].tolist()) for i in c) for c in gc_.tolist()] if gc_ is not None and len(got) else []
        rec.check("C13.copy-geom", gotc == wc, op="copy_from_extent", cls=cls, attr="cells", detail=f"copied cells connect {gotc} expected {wc}")


def hole_state(hole):
    """What a user sees of a hole: collar, surveys, and each data entry with its depths."""
    out = {"collar": [float(hole.collar[a]) for a in ("x", "y", "z")], "surveys": np.asarray(hole.surveys, dtype=float).round(6).tolist(), "data": {}}
    for c in hole.children:
        v = getattr(c, "values", None)
        if isinstance(v, np.ndarray) and v.dtype.kind == "f":
            out["data"][c.name] = [None if x != x else round(float(x), 6) for x in v.tolist()]
    return out


def make_hole(ws, parent, rng, name, collar, with_data):
    from geoh5py.objects import Drillhole

    az, dip = float(rng.choice([0, 45, 90, 200])), float(rng.choice([-90, -60, -45, -20]))
    hole = Drillhole.create(ws, parent=parent, collar=list(collar), surveys=np.array([[0.0, az, dip], [rng.choice([10.0, 40.0]), az, dip]]), name=name)
    if with_data in ("depth", "both"):
        hole.add_data({"a" + name: {"depth": np.array([2.0, 5.0, 8.0]), "values": np.array([f_tag(1), f_tag(2), f_tag(3)])}})
    if with_data in ("interval", "both"):
        hole.add_data({"i" + name: {"from-to": np.array([[1.0, 2.0], [4.0, 6.0]]), "values": np.array([f_tag(11), f_tag(12)])}})
    return hole


def judge_hole_copy(rec, hole, new, before, collar, box, dims, inverse, style, via):
    """A hole is selected by its collar, as a whole: the copy is the hole with all it carries, or nothing."""
    attr = f"{via}:{dims}d{':inverse' if inverse else ''}"
    hit = inside(collar, box, dims)
    exp = hit != inverse
    rec.check("C13.source-unchanged", hole_state(hole) == before, op="copy_from_extent", cls="Drillhole", attr=attr, detail=f"source hole changed by the selection: {hole_state(hole)} before {before}")
    if new is None:
        rec.check("C13.none", not (hit and exp), op="copy_from_extent", cls="Drillhole", attr=attr, detail=f"nothing returned although the collar {collar} lies in the box {box} ({style})")
        return
    rec.check("C13.copy-geom", exp, op="copy_from_extent", cls="Drillhole", attr=attr + ":unselected", detail=f"a hole with collar {collar} was returned for box {box} inverse={inverse} ({style})")
    if exp:
        got = hole_state(new)
        rec.check("C13.copy-geom", (got["collar"], got["surveys"]) == (before["collar"], before["surveys"]), op="copy_from_extent", cls="Drillhole", attr=attr + ":path", detail=f"copied hole has collar/surveys {got['collar']} {got['surveys']} expected {before['collar']} {before['surveys']}")
        rec.check("C13.copy-data", got["data"] == before["data"], op="copy_from_extent", cls="Drillhole", attr=attr + ":data", detail=f"copied hole carries {got['data']} expected {before['data']}")


def do_hole(case, rec, rng, ws, dims, inverse, copy):
    from geoh5py.groups import ContainerGroup, DrillholeGroup

    via = rng.choice(["plain", "plain", "concat"])
    with_data = rng.choice(["none", "depth", "interval", "both"])
    collar = (float(rng.randint(0, 5)), float(rng.randint(0, 5)), float(rng.randint(0, 3)))
    parent = DrillholeGroup.create(ws, name="dg") if via == "concat" else ws.root
    hole = make_hole(ws, parent, rng, "h", collar, with_data)
    if rng.random() < 0.5:
        # a box placed on the path rather than on the collar: the path alone never selects a hole
        path = [tuple(float(x) for x in row) for row in np.asarray(hole.locations).tolist()]
        box, style = rand_box(rng, path + [collar], dims)
        style += "-path"
    else:
        box, style = rand_box(rng, [collar, (collar[0] + 1, collar[1] + 1, collar[2] + 1)], dims)
    exp = [inside(collar, box, dims) != inverse]
    got = hole.mask_by_extent(np.array(box), inverse=inverse)
    judge_mask(rec, "Drillhole", got, exp, [collar], box, dims, inverse, style)
    if copy:
        rec.see("copies")
        rec.see("hole-copies")
        before = hole_state(hole)
        target = (DrillholeGroup if via == "concat" else ContainerGroup).create(ws, name="out")
        new = hole.copy_from_extent(np.array(box), parent=target, inverse=inverse)
        judge_hole_copy(rec, hole, new, before, collar, box, dims, inverse, style, via + ":" + with_data)
    return ["Drillhole", style, dims, inverse, via, with_data]


def grid_values(n):
    return np.array([f_tag(i) for i in range(n)])


def judge_grid_copy(rec, cls, obj, new, cent, exp, vals, box, style, dims, inverse):
    attr = f"{dims}d{':inverse' if inverse else ''}"
    if new is None:
        rec.check("C13.none", not (bbox_hit(cent, box, dims) and any(exp)), op="copy_from_extent", cls=cls, attr=attr, detail=f"copy_from_extent returned None although {sum(exp)} cells qualify")
        return
    c2 = [tuple(c) for c in new.centroids.tolist()]
    rec.check("C13.copy-geom", len(c2) == len(cent) and all(math.dist(a, b) < 1e-9 for a, b in zip(c2, cent)), op="copy_from_extent", cls=cls, attr=attr, detail="3-D grid copy by extent changed the geometry")
    for child in new.children:
        v = getattr(child, "values", None)
        if isinstance(v, np.ndarray) and child.name == "d":
            e = [vals[i] if m else float("nan") for i, m in enumerate(exp)]
            same = len(v) == len(e) and all((a == b) or (a != a and b != b) for a, b in zip(v.tolist(), e))
            rec.check("C13.copy-data", same, op="copy_from_extent", cls=cls, attr="cell-data", detail=f"values {v.tolist()} expected {e}")
        if isinstance(v, np.ndarray) and child.name == "labels":
            e = [f"cell {i}" if m else "" for i, m in enumerate(exp)]
            rec.check("C13.copy-data", [str(x) for x in v.tolist()] == e, op="copy_from_extent", cls=cls, attr="cell-text", detail=f"text values {v.tolist()} expected {e}")


def do_block(case, rec, rng, ws, dims, inverse, copy):
    from geoh5py.objects import BlockModel

    nu, nv, nz = rng.randint(1, 3), rng.randint(1, 3), rng.randint(1, 2)
    origin = [float(rng.randint(0, 3)), float(rng.randint(0, 3)), float(rng.randint(0, 2))]
    rot = rng.choice([0.0, 0.0, 40.0, 90.0, -30.0])  # rotated about the vertical axis at the origin (counter-clockwise)
    if rot:
        nu, nv = rng.randint(2, 4), rng.randint(2, 4)
    obj = BlockModel.create(ws, origin=origin, u_cell_delimiters=np.arange(nu + 1) * 2.0, v_cell_delimiters=np.arange(nv + 1) * 2.0, z_cell_delimiters=np.arange(nz + 1) * 2.0, rotation=rot, name="b")
    cent = [None] * (nu * nv * nz)
    ca, sa = math.cos(math.radians(rot)), math.sin(math.radians(rot))
    for i in range(nu):
        for j in range(nv):
            for k in range(nz):
                u, v = 2 * i + 1, 2 * j + 1
                cent[k + i * nz + j * nu * nz] = (origin[0] + u * ca - v * sa, origin[1] + u * sa + v * ca, origin[2] + 2 * k + 1) if rot else (origin[0] + u, origin[1] + v, origin[2] + 2 * k + 1)
    vals = grid_values(len(cent))
    obj.add_data({"d": {"values": vals.copy(), "association": "CELL"}})
    if rng.random() < 0.5:
        obj.add_data({"labels": {"values": np.array([f"cell {i}" for i in range(len(cent))]), "association": "CELL", "type": "text"}})
        rec.see("grids-with-text-channels")
    for _try in range(20):
        box, style = rand_box(rng, cent, dims, style=rng.choice([None, "corner-of-rotated"]) if rot else None)
        if not rot or all(min(abs(p[a] - box[0][a]), abs(p[a] - box[1][a])) > 1e-6 for p in cent for a in range(dims)):
            break
    if rot:
        style += ":rotated"
        rec.see("rotated-block-models")
    exp = expect_vertex_mask(cent, box, dims, inverse)
    got = obj.mask_by_extent(np.array(box), inverse=inverse)
    judge_mask(rec, "BlockModel", got, exp, cent, box, dims, inverse, style)
    if copy:
        rec.see("copies")
        for inv in [inverse, not inverse][: 2 if rng.random() < 0.5 else 1]:
            new = obj.copy_from_extent(np.array(box), inverse=inv)
            judge_grid_copy(rec, "BlockModel", obj, new, cent, expect_vertex_mask(cent, box, dims, inv), vals, box, style, dims, inv)
            after_copy(rec, ws, "BlockModel", obj, new, {"d": vals}, f"{dims}d")
    return ["BlockModel", (nu, nv, nz), style, dims, inverse]


def do_octree(case, rec, rng, ws, dims, inverse, copy):
    from geoh5py.objects import Octree

    nu, nv, nw = rng.choice([2, 4]), rng.choice([2, 4]), 2
    origin = [float(rng.randint(0, 2)), float(rng.randint(0, 2)), 0.0]
    obj = Octree.create(ws, origin=origin, u_count=nu, v_count=nv, w_count=nw, u_cell_size=2.0, v_cell_size=2.0, w_cell_size=2.0, name="o")
    cells = [tuple(int(x) for x in c) for c in obj.octree_cells.tolist()]
    cent = [(origin[0] + (i + n / 2.0) * 2.0, origin[1] + (j + n / 2.0) * 2.0, origin[2] + (k + n / 2.0) * 2.0) for i, j, k, n in cells]
    vals = grid_values(len(cent))
    obj.add_data({"d": {"values": vals.copy(), "association": "CELL"}})
    if rng.random() < 0.5:
        obj.add_data({"labels": {"values": np.array([f"cell {i}" for i in range(len(cent))]), "association": "CELL", "type": "text"}})
        rec.see("grids-with-text-channels")
    box, style = rand_box(rng, cent, dims)
    exp = expect_vertex_mask(cent, box, dims, inverse)
    got = obj.mask_by_extent(np.array(box), inverse=inverse)
    judge_mask(rec, "Octree", got, exp, cent, box, dims, inverse, style)
    if copy:
        rec.see("copies")
        for inv in [inverse, not inverse][: 2 if rng.random() < 0.5 else 1]:
            new = obj.copy_from_extent(np.array(box), inverse=inv)
            judge_grid_copy(rec, "Octree", obj, new, cent, expect_vertex_mask(cent, box, dims, inv), vals, box, style, dims, inv)
            after_copy(rec, ws, "Octree", obj, new, {"d": vals}, f"{dims}d")
    return ["Octree", (nu, nv, nw), style, dims, inverse]


def grid2d_centroids(nu, nv, su, sv, origin, rot, dip):
    out = [None] * (nu * nv)
    r, d = math.radians(rot), math.radians(dip)
    for i in range(nu):
        for j in range(nv):
            u, v = (i + 0.5) * su, (j + 0.5) * sv
            x, y, z = u, v * math.cos(d), v * math.sin(d)
            out[i + j * nu] = (origin[0] + math.cos(r) * x - math.sin(r) * y, origin[1] + math.sin(r) * x + math.cos(r) * y, origin[2] + z)
    return out


def grid2d_copy(rec, ws, obj, box, dims, inverse, rotated, exp, cent, vals, nu, nv, rot, dip):
    new = obj.copy_from_extent(np.array(box), inverse=inverse)
    attr = f"{dims}d{':inverse' if inverse else ''}{':rotated' if rotated else ''}"
    rec.evals["C13.grid2d"] += 1
    if new is None:
        rec.check("C13.none", not any(exp), op="copy_from_extent", cls="Grid2D", attr=attr, detail=f"None although {sum(exp)} cells qualify; box={box}")
    elif not inverse:
        sel = [(i % nu, i // nu) for i, m in enumerate(exp) if m]
        if not sel:
            rec.fail("C13.grid2d", op="copy_from_extent", cls="Grid2D", attr=attr, detail="a sub-grid was returned although no cell qualifies", counted=True)
        else:
            i0, i1 = min(s[0] for s in sel), max(s[0] for s in sel)
            j0, j1 = min(s[1] for s in sel), max(s[1] for s in sel)
            want_c = [cent[i + j * nu] for j in range(j0, j1 + 1) for i in range(i0, i1 + 1)]
            want_v = [vals[i + j * nu] if exp[i + j * nu] else float("nan") for j in range(j0, j1 + 1) for i in range(i0, i1 + 1)]
            okc = new.u_count == i1 - i0 + 1 and new.v_count == j1 - j0 + 1 and new.centroids is not None and len(new.centroids) == len(want_c) and all(math.dist(a, b) < 1e-9 for a, b in zip(new.centroids.tolist(), want_c))
            rec.check("C13.grid2d", okc, op="copy_from_extent", cls="Grid2D", attr=attr + ":geometry", detail=f"sub-grid {new.u_count}x{new.v_count} origin {new.origin} is not the smallest sub-grid [{i0}..{i1}]x[{j0}..{j1}] of the {nu}x{nv} grid (rot {rot}, dip {dip}, box {box})")
            for child in new.children:
                v = getattr(child, "values", None)
                if isinstance(v, np.ndarray) and child.name == "d":
                    same = len(v) == len(want_v) and all((a == b) or (a != a and b != b) for a, b in zip(v.tolist(), want_v))
                    rec.check("C13.grid2d", same, op="copy_from_extent", cls="Grid2D", attr=attr + ":values", detail=f"values {v.tolist()} expected {want_v}")
    else:
        for child in new.children:
            v = getattr(child, "values", None)
            if isinstance(v, np.ndarray) and child.name == "d":
                e = [vals[i] if m else float("nan") for i, m in enumerate(exp)]
                same = len(v) == len(e) and all((a == b) or (a != a and b != b) for a, b in zip(v.tolist(), e))
                rec.check("C13.grid2d", same, op="copy_from_extent", cls="Grid2D", attr=attr + ":values", detail=f"inverse copy values {v.tolist()} expected {e}")

    after_copy(rec, ws, "Grid2D", obj, new, {"d": vals}, f"{dims}d{':rotated' if rotated else ''}")


def do_grid2d(case, rec, rng, ws, dims, inverse, copy):
    from geoh5py.objects import Grid2D

    rotated = case["kind"] == "Grid2Drot"
    nu, nv = rng.randint(1, 5), rng.randint(1, 4)
    origin = [float(rng.randint(0, 3)), float(rng.randint(0, 3)), float(rng.randint(0, 2))]
    rot, dip = (rng.choice([30.0, -45.0, 90.0, 123.0]), rng.choice([0.0, 30.0, 60.0])) if rotated else (0.0, 0.0)
    obj = Grid2D.create(ws, origin=origin, u_count=nu, v_count=nv, u_cell_size=2.0, v_cell_size=2.0, rotation=rot, dip=dip, name="g")
    if rng.random() < 0.4:
        # the geometry is edited after a first look at it: selections must follow the *current* geometry
        _ = obj.centroids, obj.extent
        which = rng.choice(["vertical", "dip", "rotation", "origin"] if rotated else ["origin", "vertical"])
        if which == "vertical":
            obj.vertical = True
            dip = 90.0
        elif which == "dip":
            dip = rng.choice([0.0, 45.0, 75.0])
            obj.dip = dip
        elif which == "rotation":
            rot = rng.choice([0.0, 60.0, -30.0])
            obj.rotation = rot
        else:
            origin = [origin[0] + 1.0, origin[1] - 1.0, origin[2]]
            obj.origin = origin
        rec.see("grid2d-edited-before-selection:" + which)
        rotated = rotated or which != "origin"
    cent = grid2d_centroids(nu, nv, 2.0, 2.0, origin, rot, dip)
    vals = grid_values(len(cent))
    obj.add_data({"d": {"values": vals.copy(), "association": "CELL"}})
    for _try in range(20):
        box, style = rand_box(rng, cent, dims, style="strip" if rotated and rng.random() < 0.4 else None)
        if not rotated or all(min(abs(p[a] - box[0][a]), abs(p[a] - box[1][a])) > 1e-6 for p in cent for a in range(dims)):
            break
    else:
        return ["Grid2D", "no-safe-box"]
    exp = expect_vertex_mask(cent, box, dims, inverse)
    got = obj.mask_by_extent(np.array(box), inverse=inverse)
    judge_mask(rec, "Grid2D", got, exp, cent, box, dims, inverse, style + (":rotated" if rotated else ""))
    if copy:
        rec.see("copies")
        for inv in [inverse, not inverse][: 2 if rng.random() < 0.5 else 1]:  # sometimes both selections from the same live grid
            exp_i = expect_vertex_mask(cent, box, dims, inv)
            grid2d_copy(rec, ws, obj, box, dims, inv, rotated, exp_i, cent, vals, nu, nv, rot, dip)
    return ["Grid2D", rotated, (nu, nv), style, dims, inverse]


def do_group(case, rec, rng, ws, dims, inverse, copy):
    """Groups: copy by extent keeps exactly the children selections (a child with nothing selected is dropped)."""
    from geoh5py.groups import ContainerGroup, DrillholeGroup
    from geoh5py.objects import Points

    if rng.random() < 0.35:
        return do_hole_group(case, rec, rng, ws, dims, inverse)
    g = ContainerGroup.create(ws, name="grp")
    all_pts, kids = [], []
    nested = rng.random() < 0.4  # project -> areas -> objects: the clipped group itself holds no object
    if nested:
        rec.see("groups-of-groups")
    for k in range(rng.randint(1, 3)):
        pts = lattice_points(rng, rng.randint(2, 5))
        Points.create(ws, parent=ContainerGroup.create(ws, parent=g, name=f"area{k}") if nested else g, vertices=np.array(pts), name=f"k{k}")
        kids.append(pts)
        all_pts += pts
    box, style = rand_box(rng, all_pts, dims)
    rec.see("cls:Group")
    new = g.copy_from_extent(np.array(box), inverse=inverse)
    rec.see("copies")
    want = {}
    for k, pts in enumerate(kids):
        m = expect_vertex_mask(pts, box, dims, inverse)
        if bbox_hit(pts, box, dims) and any(m):
            want[f"k{k}"] = [p for p, mm in zip(pts, m) if mm]
    got = {}
    if new is not None:
        stack = list(new.children)
        while stack:
            c = stack.pop()
            if hasattr(c, "children") and not hasattr(c, "vertices"):
                stack.extend(c.children)
                continue
            v = getattr(c, "vertices", None)
            if v is not None and len(v):
                got[c.name] = [tuple(x) for x in v.tolist()]
    rec.check("C13.copy-geom", got == want, op="copy_from_extent", cls="Group", attr=f"{'nested:' if nested else ''}{dims}d{':inverse' if inverse else ''}", detail=f"group copy holds {got} expected {want}; box={box}")
    return ["Group", style, dims, inverse, nested]


def do_hole_group(case, rec, rng, ws, dims, inverse):
    """A group of holes clipped by a box: exactly the holes whose collar qualifies, each whole."""
    from geoh5py.groups import ContainerGroup, DrillholeGroup

    via = rng.choice(["plain", "concat"])
    g = (DrillholeGroup if via == "concat" else ContainerGroup).create(ws, name="wells")
    with_data = rng.choice(["none", "depth", "interval", "both"])
    holes, collars, seen = {}, {}, set()
    for k in range(rng.randint(2, 4)):
        collar = (float(rng.randint(0, 5)), float(rng.randint(0, 5)), float(rng.randint(0, 3)))
        if collar in seen:
            continue
        seen.add(collar)
        holes[f"w{k}"] = make_hole(ws, g, rng, f"w{k}", collar, with_data)
        collars[f"w{k}"] = collar
    pool = list(collars.values())
    if rng.random() < 0.5:
        for h in holes.values():
            pool += [tuple(float(x) for x in row) for row in np.asarray(h.locations).tolist()]
    box, style = rand_box(rng, pool, dims)
    before = {n: hole_state(h) for n, h in holes.items()}
    rec.see("cls:Group")
    rec.see("copies")
    rec.see("hole-copies")
    new = g.copy_from_extent(np.array(box), inverse=inverse)
    attr = f"holes:{via}:{with_data}:{dims}d{':inverse' if inverse else ''}"
    must = {n for n, c in collars.items() if inside(c, box, dims) and not inverse}
    may = {n for n, c in collars.items() if inside(c, box, dims) != inverse}
    got = {} if new is None else {c.name: hole_state(c) for c in new.children if hasattr(c, "collar")}
    rec.check("C13.copy-geom", must <= set(got) <= may, op="copy_from_extent", cls="Group", attr=attr, detail=f"group clip returned holes {sorted(got)}; collars {collars}; box={box} inverse={inverse}: required {sorted(must)}, allowed {sorted(may)}")
    for n in set(got) & may:
        rec.check("C13.copy-geom", (got[n]["collar"], got[n]["surveys"]) == (before[n]["collar"], before[n]["surveys"]), op="copy_from_extent", cls="Group", attr=attr + ":path", detail=f"hole {n} copied with {got[n]['collar']} {got[n]['surveys']} expected {before[n]['collar']} {before[n]['surveys']}")
        rec.check("C13.copy-data", got[n]["data"] == before[n]["data"], op="copy_from_extent", cls="Group", attr=attr + ":data", detail=f"hole {n} copied with data {got[n]['data']} expected {before[n]['data']}")
    for n, h in holes.items():
        rec.check("C13.source-unchanged", hole_state(h) == before[n], op="copy_from_extent", cls="Group", attr=attr, detail=f"source hole {n} changed by the clip")
    return ["Group", style, dims, inverse, "holes", via, with_data]
