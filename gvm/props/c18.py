"""C18 — drillhole positions follow the survey.

Analytic clauses straight from the statement, with station directions computed independently
(azimuth clockwise from north, negative dip downward: x = sin az cos dip, y = cos az cos dip,
z = sin dip): desurvey(0) is the collar; the path is continuous; inside a leg the displacement is
(depth difference) x mean of the leg's two station directions; beyond the last station the last
direction of motion continues; every coordinate is finite.  Addition histories on plain drillholes:
every vertex sits at desurvey(DEPTH), every cell joins desurvey(FROM)/desurvey(TO), every value stays
attached to its depth / interval.  A numpy *poison proxy* (MemorySanitizer analogue) fills every
ufunc output that is selected with `where=` but has no `out=` and every np.empty with NaN, so reads
of uninitialised memory become deterministic."""
from __future__ import annotations

import math
import random

import numpy as np

PROP = "C18"
LEVEL = "exploration"
RULE = (
    "case = batch of seeded (collar, survey table, query depths) triples (tables: single row, first depth 0 or > 0, "
    "repeated depths, any azimuth/dip incl. |dip|=90 and azimuth wrap) or one seeded history of depth/interval data "
    "additions (varying order, overlap, collocated depths within tolerance, unsorted depths) on a plain drillhole. "
    "Non-trivial = table with >= 2 rows or history with >= 2 additions; distinct = structural shape (rows, flags, op kinds)."
)
ASSUMPTIONS = [
    "ANALYST convention for azimuth/dip, anchored by convention-free clauses (dip -90 is straight down, unit directions, continuity)",
    "numeric tolerance 1e-6 x scale (survey columns are float32 in the file: inputs are float32-exact)",
    "new depths within one addition are separated by more than three collocation distances",
]
TOL = 1e-6


def floors(tier):
    return {"tables": 2000, "tables-repeated-depth": 300, "tables-single-row": 300, "tables-first-depth-zero": 600, "C18.leg": 3000, "C18.collar": 600, "histories": 100, "histories-mixed": 40, "C18.vertex": 400, "C18.cell": 150, "C18.value": 400, "additions-on-unread-hole": 8}


def gen_cases(tier, seed):
    nt = 150 if tier == "quick" else 3000
    nh = 600 if tier == "quick" else 8000
    cases = [{"kind": "tables", "count": 20} for _ in range(nt)]
    cases += [{"kind": "history", "n_add": 2 + i % 5, "mode": ["depth", "interval", "mixed", "mixed", "batch"][i % 5], "reopen": i % 3 == 0} for i in range(nh)]
    return cases


# ------------------------------------------------------------------------------------------
class NpPoison:
    """Stand-in for the numpy module inside a library module: uninitialised outputs become NaN."""

    def __init__(self, real, counter):
        object.__setattr__(self, "_np", real)
        object.__setattr__(self, "_counter", counter)

    def __getattr__(self, name):
        real = getattr(self._np, name)
        if isinstance(real, np.ufunc):
            counter = self._counter

            def wrapped(*args, **kwargs):
                if kwargs.get("where", True) is not True and kwargs.get("out") is None and len(args) == real.nin:
                    counter["ufunc-where-without-out"] += 1
                    shape = np.broadcast(*[np.asarray(a) for a in args]).shape
                    out = np.full(shape, np.nan)
                    try:
                        return real(*args, out=out, **kwargs)
                    except TypeError:
                        return real(*args, **kwargs)
                return real(*args, **kwargs)

            return wrapped
        if name in ("empty", "empty_like"):
            counter = self._counter

            def poisoned(*args, **kwargs):
                arr = real(*args, **kwargs)
                counter["np.empty"] += 1
                if arr.dtype.kind == "f":
                    arr[...] = np.nan
                elif arr.dtype.kind in "iu":
                    arr[...] = np.iinfo(arr.dtype).min
                return arr

            return poisoned
        return real


_POISON = {"ufunc-where-without-out": 0, "np.empty": 0}


def install_poison():
    import geoh5py.objects.drillhole as dh
    import geoh5py.shared.utils as ut

    if not isinstance(dh.np, NpPoison):
        dh.np = NpPoison(np, _POISON)
    if not isinstance(ut.np, NpPoison):
        ut.np = NpPoison(np, _POISON)


# ------------------------------------------------------------------------------------------
def direction(az, dip):
    a, d = math.radians(az), math.radians(dip)
    return (math.sin(a) * math.cos(d), math.cos(a) * math.cos(d), math.sin(d))


def f32(x):
    return float(np.float32(x))


STYLES = ["single", "zero-first", "positive-first", "repeated", "long", "vertical", "wrap"]


def rand_table(rng, style_index=None):
    """Survey table with non-decreasing depth; returns rows and structural flags."""
    style = STYLES[style_index % len(STYLES)] if style_index is not None else rng.choice(STYLES)
    n = 1 if style == "single" else (rng.randint(4, 6) if style == "repeated" else rng.randint(2, 6))
    d = 0.0 if style in ("zero-first", "repeated", "vertical") or rng.random() < 0.3 else f32(rng.choice([5.0, 12.5, 40.0]))
    rows = []
    for i in range(n):
        az = f32(rng.choice([0.0, 45.0, 90.0, 135.5, 270.0, 359.0, 360.0, 400.0, -30.0, rng.uniform(0, 360)]))
        dip = f32(rng.choice([-90.0, -80.0, -60.5, -45.0, -10.0, 0.0, 20.0, rng.uniform(-90, 10)]))
        if style == "vertical":
            dip = -90.0
        rows.append([d, az, dip])
        step = f32(rng.choice([10.0, 25.0, 7.5, 100.0]))
        if style == "repeated" and 0 < i < n - 2 and (i == 1 or rng.random() < 0.4):
            step = 0.0  # a repeated depth in the middle of the table (the last leg keeps a positive length)
        d = f32(d + step)
    flags = {"rows": n, "style": style, "first0": rows[0][0] == 0.0, "repeated": any(rows[i][0] == rows[i + 1][0] for i in range(n - 1))}
    return rows, flags


def reference_path(collar, rows):
    """Stations of the reference path: (depth, position) with a copy of the first station at depth 0."""
    st = [[0.0, rows[0][1], rows[0][2]]] + [list(r) for r in rows]
    dirs = [direction(r[1], r[2]) for r in st]
    pos = [tuple(collar)]
    legs = []
    for i in range(len(st) - 1):
        length = st[i + 1][0] - st[i][0]
        mean = tuple((a + b) / 2.0 for a, b in zip(dirs[i], dirs[i + 1]))
        legs.append((st[i][0], st[i + 1][0], mean))
        pos.append(tuple(p + length * m for p, m in zip(pos[-1], mean)))
    return st, dirs, pos, legs


def ref_position(collar, rows, depth):
    st, dirs, pos, legs = reference_path(collar, rows)
    # last station strictly shallower than depth (a point exactly on a station belongs to the leg above it)
    idx = 0
    for i, s in enumerate(st):
        if s[0] < depth:
            idx = i
    if idx < len(legs):
        u = legs[idx][2]
    else:
        u = legs[-1][2]
    return tuple(p + (depth - st[idx][0]) * c for p, c in zip(pos[idx], u))


def near(a, b, scale):
    return all(math.isfinite(float(x)) for x in a) and all(abs(float(x) - float(y)) <= TOL * max(1.0, scale) for x, y in zip(a, b))


def run_case(case, rec):
    install_poison()
    rng = random.Random(case["seed"])
    before = dict(_POISON)
    if case["kind"] == "tables":
        do_tables(case, rec, rng)
    else:
        do_history(case, rec, rng)
    for k, v in _POISON.items():
        if v - before[k]:
            rec.see("poison:" + k, v - before[k])


def do_tables(case, rec, rng):
    from geoh5py.objects import Drillhole
    from geoh5py.workspace import Workspace

    ws = Workspace()
    shapes = []
    dgrp = None
    for ti in range(case["count"]):
        rows, flags = rand_table(rng, ti)
        collar = [f32(rng.choice([0.0, 1000.5, -250.25])), f32(rng.choice([0.0, 5e5, -3.5])), f32(rng.choice([0.0, 312.5]))]
        shapes.append([flags["rows"], flags["style"], flags["first0"], flags["repeated"]])
        rec.see("tables")
        if flags["repeated"]:
            rec.see("tables-repeated-depth")
        if flags["rows"] == 1:
            rec.see("tables-single-row")
        if flags["first0"]:
            rec.see("tables-first-depth-zero")
        # the hole as a plain object or inside a drillhole group (concatenated storage), the table as an array or as a list of rows
        how = ti % 4
        if how in (2, 3):
            from geoh5py.groups import DrillholeGroup

            if dgrp is None:
                dgrp = DrillholeGroup.create(ws, name="dg")
            hole = Drillhole.create(ws, parent=dgrp, name=f"t{ti}", collar=collar, surveys=np.array(rows, dtype=float) if how == 2 else [list(r) for r in rows])
            rec.see("tables-in-drillhole-group" + (":list-of-rows" if how == 3 else ""))
        else:
            hole = Drillhole.create(ws, collar=collar, surveys=np.array(rows, dtype=float) if how == 0 else [list(r) for r in rows])
        scale = max(abs(c) for c in collar) + rows[-1][0] + 200.0
        tag = flags["style"]
        depths_all = sorted({r[0] for r in rows})
        last = rows[-1][0]
        # collar at depth zero
        p0 = hole.desurvey(np.array([0.0]))[0]
        rec.check("C18.collar", near(p0, collar, scale), op="desurvey", cls="Drillhole", attr=tag, detail=f"desurvey(0)={p0.tolist()} collar={collar} surveys={rows}")
        # query depths: at, between and beyond stations
        q = set(depths_all)
        for a, b in zip([0.0] + depths_all, depths_all + [last + 50.0]):
            if b > a:
                q |= {a + (b - a) * t for t in (0.25, 0.5, 0.9)}
        q |= {last + 1.0, last + 37.5, 0.001}
        q = sorted(x for x in q if x >= 0)
        got = hole.desurvey(np.array(q))
        fin = bool(np.all(np.isfinite(got)))
        rec.check("C18.nan", fin, op="desurvey", cls="Drillhole", attr=tag, detail=f"non-finite coordinates for depths {[q[i] for i in np.where(~np.isfinite(got).all(axis=1))[0][:4]]} surveys={rows}")
        if not fin:
            continue
        for d, g in zip(q, got):
            e = ref_position(collar, rows, d)
            where = "beyond" if d > last else "leg"
            rec.check("C18." + where, near(g, e, scale), op="desurvey", cls="Drillhole", attr=tag, detail=f"depth {d}: got {g.tolist()} expected {list(e)} surveys={rows} collar={collar}")
        # continuity across every station, from both sides
        eps = 1e-3
        for d in depths_all:
            pts = hole.desurvey(np.array([max(d - eps, 0.0), d, d + eps]))
            jump = max(float(np.linalg.norm(pts[1] - pts[0])), float(np.linalg.norm(pts[2] - pts[1])))
            rec.check("C18.continuity", jump <= eps * (1 + 1e-3) + TOL * scale, op="desurvey", cls="Drillhole", attr=tag, detail=f"jump {jump} across station depth {d} surveys={rows}")
        # convention-free: straight down for dip -90 everywhere
        if tag == "vertical":
            pz = hole.desurvey(np.array([last + 10.0]))[0]
            rec.check("C18.leg", near(pz, (collar[0], collar[1], collar[2] - (last + 10.0)), scale), op="desurvey", cls="Drillhole", attr="vertical-anchor", detail=f"vertical hole at depth {last + 10}: {pz.tolist()}")
        # the same object with a new collar, then with a new survey table: positions follow the current values
        if ti % 2 == 0:
            collar2 = [f32(collar[0] + 250.0), f32(collar[1] - 40.5), f32(collar[2] + 25.0)]
            hole.collar = collar2
            got2 = hole.desurvey(np.array(q))
            scale2 = max(abs(c) for c in collar2) + rows[-1][0] + 200.0
            for d, g in zip(q, got2):
                rec.check("C18.collar" if d == 0 else "C18.leg", bool(np.all(np.isfinite(g))) and near(g, ref_position(collar2, rows, d), scale2), op="desurvey-after-collar-change", cls="Drillhole", attr=tag,
                          detail=f"collar re-assigned to {collar2}: depth {d} gives {g.tolist()}, expected {list(ref_position(collar2, rows, d))}")
            p0 = hole.desurvey(np.array([0.0]))[0]
            rec.check("C18.collar", near(p0, collar2, scale2), op="desurvey-after-collar-change", cls="Drillhole", attr=tag, detail=f"desurvey(0)={p0.tolist()} after the collar became {collar2}")
            rows2, _ = rand_table(rng, ti + 1)
            hole.surveys = np.array(rows2, dtype=float)
            q2 = sorted({r[0] for r in rows2} | {0.0, rows2[-1][0] + 12.5, rows2[-1][0] * 0.37})
            got3 = hole.desurvey(np.array(q2))
            if np.all(np.isfinite(got3)):
                for d, g in zip(q2, got3):
                    rec.check("C18.leg", near(g, ref_position(collar2, rows2, d), scale2 + rows2[-1][0]), op="desurvey-after-survey-change", cls="Drillhole", attr=tag,
                              detail=f"surveys re-assigned to {rows2}: depth {d} gives {g.tolist()}, expected {list(ref_position(collar2, rows2, d))}")
            rec.see("reassigned-collar-and-surveys")
        rec.nontrivial = rec.nontrivial or flags["rows"] >= 2
    rec.shape = ["tables", shapes]
    rec.sample = {"kind": "tables", "last_table": rows, "collar": collar}
    ws.close()


# ------------------------------------------------------------------------------------------
def g_depth(k, d):
    return f32(1000.0 * k + d)


def g_int(k, a, b):
    return f32(-1000.0 * k - a - b / 1024.0)


def do_history(case, rec, rng):
    import os
    import shutil
    import tempfile

    from geoh5py.objects import Drillhole
    from geoh5py.workspace import Workspace

    d = tempfile.mkdtemp(prefix="gvm_")
    path = os.path.join(d, "dh.geoh5")
    try:
        ws = Workspace.create(path)
        rows, flags = rand_table(rng)
        collar = [f32(rng.choice([0.0, 1000.5])), f32(rng.choice([0.0, -35.5])), f32(rng.choice([0.0, 312.5]))]
        hole = Drillhole.create(ws, collar=collar, surveys=np.array(rows, dtype=float), name="hole")
        tol = rng.choice([None, 1e-2, 0.5])
        tolv = hole.default_collocation_distance if tol is None else tol
        lattice = [f32(x) for x in np.arange(0.0, 120.0, 2.5)]
        given_depth = {}  # dataset name -> {depth given: value}
        given_int = {}
        ops = []
        rec.see("histories")
        kinds = set()
        for k in range(case["n_add"]):
            mode = case["mode"] if case["mode"] not in ("mixed", "batch") else rng.choice(["depth", "interval"])
            if case["mode"] == "batch" and k % 2 == 0:
                # ONE add_data call whose dictionary holds an interval log followed by two depth logs that share their depths
                # (given in any order): the merge of the second log meets a DEPTH vector that was not re-sorted yet
                kw = {} if tol is None else {"collocation_distance": tol}
                n = rng.randint(2, 5)
                ds = rng.sample(lattice, n)
                if rng.random() < 0.4:
                    ds = sorted(ds, reverse=rng.random() < 0.5)
                starts = rng.sample(lattice[:-4], rng.randint(1, 3))
                ft = [[s0, f32(s0 + rng.choice([2.5, 5.0]))] for s0 in starts]
                va = np.array([g_depth(k, x) for x in ds], dtype=float)
                vb = np.array([g_depth(k + 50, x) for x in ds], dtype=float)
                vi = np.array([g_int(k, a, b) for a, b in ft], dtype=float)
                entries = {f"i{k}": {"from-to": np.array(ft, dtype=float), "values": vi.copy()},
                           f"d{k}a": {"depth": np.array(ds, dtype=float), "values": va.copy()},
                           f"d{k}b": {"depth": np.array(ds, dtype=float), "values": vb.copy()}}
                if rng.random() < 0.5:
                    entries = {kk: entries[kk] for kk in (f"d{k}a", f"i{k}", f"d{k}b")}
                ds_b = ds
                if tol is None and rng.random() < 0.6:
                    # every log of the call states its own tolerance: a coarse one for the first depth log, the fine default for
                    # the second, whose depths lie 0.2 below the first one's (inside the coarse tolerance, outside its own)
                    entries[f"d{k}a"]["collocation_distance"] = 0.5
                    ds_b = [f32(x + 0.2) for x in ds]
                    entries[f"d{k}b"]["depth"] = np.array(ds_b, dtype=float)
                    if rng.random() < 0.5:
                        entries[f"d{k}b"]["collocation_distance"] = 1e-2
                    rec.see("per-log-tolerances")
                hole.add_data(entries, **kw)
                given_int[f"i{k}"] = {tuple(x): v for x, v in zip(ft, vi.tolist())}
                given_depth[f"d{k}a"] = dict(zip(ds, va.tolist()))
                given_depth[f"d{k}b"] = dict(zip(ds_b, vb.tolist()))
                ops.append(("batch", n))
                kinds.update({"depth", "interval"})
                rec.see("batched-additions")
                judge_hole(rec, hole, collar, rows, given_depth, given_int, tolv, "after-batch")
                continue
            kinds.add(mode)
            name = f"{mode[0]}{k}"
            kw = {} if tol is None else {"collocation_distance": tol}
            if mode == "depth":
                n = rng.randint(1, 6)
                ds = rng.sample(lattice, n)
                if rng.random() < 0.5:
                    ds = sorted(ds)
                # some depths collocated (within tolerance) with depths used before
                prior = sorted({x for g in given_depth.values() for x in g})
                if prior and rng.random() < 0.6:
                    j = rng.randrange(len(ds))
                    cand = f32(rng.choice(prior) + 0.3 * tolv)
                    if all(abs(cand - x) > 3 * tolv for i2, x in enumerate(ds) if i2 != j):
                        ds[j] = cand
                if rng.random() < 0.25:
                    # remarks at depths: text
                    vals = np.array([f"at {x:g} " + "y" * (i % 3) for i, x in enumerate(ds)])
                    name = "t" + name
                    hole.add_data({name: {"depth": np.array(ds, dtype=float), "values": vals.copy(), "type": "text"}}, **kw)
                    rec.see("text-depth-logs")
                else:
                    vals = np.array([g_depth(k, x) for x in ds], dtype=float)
                    hole.add_data({name: {"depth": np.array(ds, dtype=float), "values": vals.copy()}}, **kw)
                given_depth[name] = dict(zip(ds, vals.tolist()))
                ops.append(("depth", n))
            else:
                n = rng.randint(1, 4)
                starts = rng.sample(lattice[:-4], n)
                ft = []
                for s in starts:
                    ft.append([s, f32(s + rng.choice([2.5, 5.0, 7.5]))])
                prior = [iv for g in given_int.values() for iv in g]
                if prior and rng.random() < 0.5:
                    ft[0] = list(rng.choice(prior))  # exactly the same interval as before
                    ft = [list(x) for x in {tuple(x) for x in ft}]
                if rng.random() < 0.25:
                    # a described interval (lithology, remarks): text of different lengths
                    vals = np.array([f"lith {k}/{i} " + "x" * (i % 4) for i in range(len(ft))])
                    name = "t" + name
                    hole.add_data({name: {"from-to": np.array(ft, dtype=float), "values": vals.copy(), "type": "text"}}, **kw)
                    rec.see("text-interval-logs")
                else:
                    vals = np.array([g_int(k, a, b) for a, b in ft], dtype=float)
                    hole.add_data({name: {"from-to": np.array(ft, dtype=float), "values": vals.copy()}}, **kw)
                given_int[name] = {tuple(x): v for x, v in zip(ft, vals.tolist())}
                ops.append(("interval", len(ft)))
            if case["reopen"] and rng.random() < 0.4:
                uid = hole.uid
                ws.close()
                ws.open()
                hole = ws.get_entity(uid)[0]
                ops.append(("reopen", 0))
                if k + 1 < case["n_add"] and rng.random() < 0.6:
                    # the next addition meets a hole whose geometry was not read in this session yet
                    ops.append(("unread", 0))
                    rec.see("additions-on-unread-hole")
                    continue
            judge_hole(rec, hole, collar, rows, given_depth, given_int, tolv, f"after-{mode}")
        if len(kinds) == 2:
            rec.see("histories-mixed")
        rec.nontrivial = case["n_add"] >= 2
        rec.shape = ["history", case["mode"], ops, tol, [flags["rows"], flags["style"]]]
        rec.sample = {"kind": "history", "ops": ops, "surveys": rows}
        ws.close()
    finally:
        shutil.rmtree(d, ignore_errors=True)


def judge_hole(rec, hole, collar, rows, given_depth, given_int, tol, where):
    verts = hole.vertices
    if verts is None:
        rec.fail("C18.vertex", op=where, cls="Drillhole", attr="no-vertices", detail="no vertices after additions")
        return
    scale = max(abs(c) for c in collar) + 400.0
    depth_data = hole.get_data("DEPTH")
    depths = depth_data[0].values if depth_data else None
    n = verts.shape[0]
    if given_depth:
        if depths is None or len(depths) != n:
            rec.fail("C18.vertex", op=where, cls="Drillhole", attr="DEPTH-length", detail=f"DEPTH has {None if depths is None else len(depths)} entries for {n} vertices")
            return
        exp = hole.desurvey(np.where(np.isnan(depths), 0.0, depths))
        for i in range(n):
            if np.isnan(depths[i]):
                continue
            e = ref_position(collar, rows, float(depths[i]))
            rec.check("C18.vertex", near(verts[i], e, scale), op=where, cls="Drillhole", attr="position", detail=f"vertex {i} at depth {depths[i]}: {verts[i].tolist()} but the survey gives {list(e)} (desurvey {exp[i].tolist()})")
        for name, table in given_depth.items():
            dd = hole.get_data(name)
            if not dd:
                rec.fail("C18.value", op=where, cls="Drillhole", attr="missing-data", detail=f"depth data {name} disappeared")
                continue
            vals = dd[0].values
            # one vertex per depth: a depth given in several logs (exactly, or within the tolerance) is the same vertex for all
            for dgiven in table:
                same = [i for i in range(n) if not np.isnan(depths[i]) and abs(depths[i] - dgiven) <= min(tol, 1e-2) * 1.0001 + 1e-9]
                rec.check("C18.value", len(same) <= 1, op=where, cls="Drillhole", attr="duplicate-vertex", detail=f"{name}: depth {dgiven} is carried by {len(same)} vertices (DEPTH={np.round(depths, 4).tolist()})")
            if isinstance(vals, np.ndarray) and vals.dtype.kind in "USO":
                tv_ = [x.decode() if isinstance(x, bytes) else str(x) for x in vals.tolist()] + [""] * max(n - len(vals), 0)
                matched = set()
                for dgiven, v in table.items():
                    idx = [i for i in range(n) if not np.isnan(depths[i]) and abs(depths[i] - dgiven) <= tol * 1.0001 + 1e-9 and tv_[i] == v]
                    rec.check("C18.value", len(idx) >= 1, op=where, cls="Drillhole", attr="depth-text", detail=f"{name}: text {v!r} given at depth {dgiven} is not found at that depth (DEPTH={np.round(depths, 4).tolist()}, values={tv_})")
                    matched |= set(idx[:1])
                stray = [i for i in range(n) if i not in matched and tv_[i] not in ("", "nan", "None")]
                rec.check("C18.value", not stray, op=where, cls="Drillhole", attr="stray-text", detail=f"{name}: text at vertices {stray[:4]} that was never given there (values={tv_}, DEPTH={np.round(depths, 3).tolist()})")
                continue
            if vals is not None and len(vals) < n:
                vals = np.r_[vals, np.full(n - len(vals), np.nan)]  # trailing entries not yet materialised = no data
            if vals is None or len(vals) != n:
                rec.fail("C18.value", op=where, cls="Drillhole", attr="length", detail=f"{name} has {None if vals is None else len(vals)} values for {n} vertices")
                continue
            matched = set()
            for dgiven, v in table.items():
                idx = [i for i in range(n) if not np.isnan(depths[i]) and abs(depths[i] - dgiven) <= tol * 1.0001 + 1e-9 and not np.isnan(vals[i]) and abs(vals[i] - v) <= 1e-6 * max(1.0, abs(v))]
                rec.check("C18.value", len(idx) >= 1, op=where, cls="Drillhole", attr="depth-value", detail=f"{name}: value {v} given at depth {dgiven} is not found at that depth (DEPTH={np.round(depths, 4).tolist()}, values={np.round(vals, 4).tolist()})")
                matched |= set(idx[:1])
            stray = [i for i in range(n) if i not in matched and not np.isnan(vals[i])]
            rec.check("C18.value", not stray, op=where, cls="Drillhole", attr="stray-value", detail=f"{name}: values at vertices {stray[:4]} that were never given there (values={np.round(vals, 3).tolist()}, DEPTH={np.round(depths, 3).tolist()})")
    if given_int:
        cells = hole.cells
        fr, to = hole.get_data("FROM"), hole.get_data("TO")
        if cells is None or not fr or not to:
            rec.fail("C18.cell", op=where, cls="Drillhole", attr="no-cells", detail="interval data present but cells/FROM/TO missing")
            return
        fv, tv = fr[0].values, to[0].values
        nc = cells.shape[0]
        if len(fv) < nc:
            fv = np.r_[fv, np.full(nc - len(fv), np.nan)]
        if len(tv) < nc:
            tv = np.r_[tv, np.full(nc - len(tv), np.nan)]
        if len(fv) != nc or len(tv) != nc:
            rec.fail("C18.cell", op=where, cls="Drillhole", attr="FROM-TO-length", detail=f"{nc} cells but FROM has {len(fv)} and TO {len(tv)} entries")
            return
        for c in range(nc):
            a, b = int(cells[c, 0]), int(cells[c, 1])
            ok = 0 <= a < n and 0 <= b < n
            if ok:
                ea, eb = ref_position(collar, rows, float(fv[c])), ref_position(collar, rows, float(tv[c]))
                ok = near(verts[a], ea, scale) and near(verts[b], eb, scale)
            rec.check("C18.cell", ok, op=where, cls="Drillhole", attr="joins-from-to", detail=f"cell {c}=({a},{b}) FROM {fv[c]} TO {tv[c]}: ends {verts[a].tolist() if 0 <= a < n else None} {verts[b].tolist() if 0 <= b < n else None} are not the survey positions of those depths")
        for name, table in given_int.items():
            dd = hole.get_data(name)
            if not dd:
                rec.fail("C18.value", op=where, cls="Drillhole", attr="missing-data", detail=f"interval data {name} disappeared")
                continue
            vals = dd[0].values
            is_text = isinstance(vals, np.ndarray) and vals.dtype.kind in "USO"
            if is_text:
                vals = np.array([x.decode() if isinstance(x, bytes) else str(x) for x in vals.tolist()] + [""] * max(nc - len(vals), 0), dtype=object)
                matched = set()
                for (a, b), v in table.items():
                    idx = [c for c in range(nc) if abs(fv[c] - a) <= tol + 1e-9 and abs(tv[c] - b) <= tol + 1e-9 and vals[c] == v]
                    rec.check("C18.value", len(idx) >= 1, op=where, cls="Drillhole", attr="interval-text", detail=f"{name}: text {v!r} given on [{a},{b}] not found on that interval (FROM={fv.tolist()} TO={tv.tolist()} values={vals.tolist()})")
                    matched |= set(idx[:1])
                stray = [c for c in range(nc) if c not in matched and vals[c] not in ("", "nan", "None")]
                rec.check("C18.value", not stray, op=where, cls="Drillhole", attr="stray-text", detail=f"{name}: text on cells {stray[:4]} that was never given there: {vals.tolist()}")
                continue
            if vals is not None and len(vals) < nc:
                vals = np.r_[vals, np.full(nc - len(vals), np.nan)]
            if vals is None or len(vals) != nc:
                rec.fail("C18.value", op=where, cls="Drillhole", attr="length", detail=f"{name} has {None if vals is None else len(vals)} values for {nc} cells")
                continue
            matched = set()
            for (a, b), v in table.items():
                idx = [c for c in range(nc) if abs(fv[c] - a) <= tol + 1e-9 and abs(tv[c] - b) <= tol + 1e-9 and not np.isnan(vals[c]) and abs(vals[c] - v) <= 1e-6 * max(1.0, abs(v))]
                rec.check("C18.value", len(idx) >= 1, op=where, cls="Drillhole", attr="interval-value", detail=f"{name}: value {v} given on [{a},{b}] not found on that interval (FROM={fv.tolist()} TO={tv.tolist()} values={vals.tolist()})")
                matched |= set(idx[:1])
            stray = [c for c in range(nc) if c not in matched and not np.isnan(vals[c])]
            rec.check("C18.value", not stray, op=where, cls="Drillhole", attr="stray-value", detail=f"{name}: values on cells {stray[:4]} that were never given there")
