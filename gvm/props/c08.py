"""C08 — values survive storage unchanged; gaps use the format's no-data codes.

Partitioned inputs: every numpy numeric dtype x magnitude class (0, +-1, 32-bit boundaries, +-2^31,
+-2^40, +-2^63, sub-normal, +-max, +-inf, NaN, non-integral, floats adjacent to the float no-data
sentinel) x data kind (float, integer, boolean, referenced) x entry point (add_data / values
setter), plus Unicode and byte strings, value-map dictionaries, comments, blobs and metadata.
Oracle: a representability predicate written from the statement.  Representable => accepted, live
read == written, re-opened read == written, raw dataset encoded as documented (NaN <-> float no-data
code, INT no-data code for integer gaps, int8 0/1 booleans, UTF-8 text, 'Value map' with key 0 =
'Unknown').  Not representable => an exception; accepted-and-altered is `C08.silently-altered`."""
from __future__ import annotations

import gc
import math
import os
import random
import shutil
import tempfile
import uuid
import warnings

import h5py
import numpy as np

from ..core import canon, exc_origin, short

PROP = "C08"
LEVEL = "exploration"
RULE = (
    "case = one cell of the partition dtype x magnitude class x kind x entry point (enumerated exhaustively) with seeded "
    "fillers, or one string / value-map / blob / comment / metadata input class with seeded content. Non-trivial = an "
    "array of >= 2 entries or a non-empty string; distinct = the partition cell."
)
ASSUMPTIONS = [
    "representable for integer/referenced kinds: integral and within [-2^31, 2^31-1] (NaN = gap); boolean: every entry in {0,1}; float kind: any finite or infinite float, integers up to 2^53",
    "the float exactly equal to the float no-data sentinel is the documented exception and is not generated",
]
DTYPES = ["int8", "int16", "int32", "int64", "uint8", "uint16", "uint32", "uint64", "float16", "float32", "float64", "bool"]
MAGS = ["zero", "one", "minus-one", "i32max", "i32min", "over-i32", "under-i32", "p40", "m40", "p63", "subnormal", "fmax", "fmin", "inf", "minus-inf", "nan", "non-integral", "ndv-next-up", "ndv-next-down", "two"]
KINDS = ["float", "integer", "boolean", "referenced"]
ENTRY = ["add_data", "setter"]


def floors(tier):
    return {"numeric-cells": 900, "C08.roundtrip": 600, "C08.raw": 600, "rejected-as-required": 150, "strings": 60, "value-maps": 20, "blobs": 15, "comments": 10, "metadata": 10}


def EXHAUSTIVE(tier):
    return "dtype x magnitude class x kind x entry point (cells a dtype cannot express are skipped and counted)"


def gen_cases(tier, seed):
    cases = []
    reps = 3 if tier == "quick" else 12
    for rep in range(reps):
        for kind in KINDS:
            for entry in ENTRY:
                for dt in DTYPES:
                    cases.append({"kind": "numeric", "dkind": kind, "entry": entry, "dtype": dt, "rep": rep})
        for i in range(24):
            cases.append({"kind": "strings", "variant": i, "rep": rep})
        for i in range(8):
            cases.append({"kind": "valuemap", "variant": i, "rep": rep})
        for i in range(6):
            cases.append({"kind": "blob", "variant": i, "rep": rep})
        for i in range(12):
            cases.append({"kind": "depths", "variant": i, "rep": rep})
        for i in range(4):
            cases.append({"kind": "comments", "variant": i, "rep": rep})
        for i in range(4):
            cases.append({"kind": "metadata", "variant": i, "rep": rep})
        for kind in KINDS:
            for entry in ENTRY:
                cases.append({"kind": "shape", "dkind": kind, "entry": entry, "rep": rep})
        if rep == 0:
            for kind in KINDS:
                for entry in ENTRY:
                    for dt in DTYPES:
                        cases.append({"kind": "gaps", "dkind": kind, "entry": entry, "dtype": dt, "rep": rep})
    return cases


# ------------------------------------------------------------------------------------------
def magnitude(mag, dtype):
    """The special value of a magnitude class in a dtype, or None when the dtype cannot express it."""
    from geoh5py.shared import FLOAT_NDV

    dt = np.dtype(dtype)
    table = {
        "zero": 0, "one": 1, "minus-one": -1, "two": 2, "i32max": 2**31 - 1, "i32min": -(2**31), "over-i32": 2**31, "under-i32": -(2**31) - 1,
        "p40": 2**40, "m40": -(2**40), "p63": 2**63 - 1,
    }
    if dt.kind == "b":
        return {"zero": False, "one": True}.get(mag)
    if mag in table:
        v = table[mag]
        if dt.kind in "iu":
            info = np.iinfo(dt)
            return v if info.min <= v <= info.max else None
        if dt.kind == "f":
            fv = dt.type(v)
            return fv if float(fv) == float(v) and math.isfinite(float(fv)) else None
    if dt.kind != "f":
        return None
    fi = np.finfo(dt)
    if mag == "subnormal":
        return dt.type(fi.smallest_subnormal)
    if mag == "fmax":
        return dt.type(fi.max)
    if mag == "fmin":
        return dt.type(fi.min)
    if mag == "inf":
        return dt.type(np.inf)
    if mag == "minus-inf":
        return dt.type(-np.inf)
    if mag == "nan":
        return dt.type(np.nan)
    if mag == "non-integral":
        return dt.type(2.5)
    if mag in ("ndv-next-up", "ndv-next-down") and dt == np.dtype("float64"):
        return np.nextafter(np.float64(FLOAT_NDV), np.float64(np.inf if mag.endswith("up") else -np.inf))
    if mag in ("ndv-next-up", "ndv-next-down") and dt == np.dtype("float32"):
        return np.nextafter(np.float32(FLOAT_NDV), np.float32(np.inf if mag.endswith("up") else -np.inf))
    return None


def representable(kind, arr):
    """(representable, expected read-back as python list) for a full-length array of a data kind."""
    from geoh5py.shared import INTEGER_NDV

    vals = arr.tolist()
    if kind == "float":
        out = []
        for v in vals:
            if isinstance(v, bool):
                v = float(v)
            if isinstance(v, int) and abs(v) > 2**53:
                return None, None  # outside the partition (not classified by the statement)
            out.append(float(v))
        return True, out
    if kind in ("integer", "referenced"):
        out = []
        for v in vals:
            if isinstance(v, float) and v != v:
                out.append(INTEGER_NDV)
                continue
            if isinstance(v, float) and (math.isinf(v) or v != int(v)):
                return False, None
            iv = int(v)
            if not (-(2**31) <= iv <= 2**31 - 1):
                return False, None
            if kind == "referenced" and iv < 0 and iv != INTEGER_NDV:
                return None, None
            out.append(iv)
        return True, out
    if kind == "boolean":
        for v in vals:
            if isinstance(v, float) and v != v:
                return None, None  # NaN is the library's gap marker for every numeric kind: not classified here
            if v not in (0, 1, True, False):
                return False, None
        return True, [bool(v) for v in vals]
    return None, None


def same_list(a, b):
    if a is None or b is None or len(a) != len(b):
        return False
    for x, y in zip(a, b):
        if isinstance(x, float) and isinstance(y, float) and x != x and y != y:
            continue
        if x != y:
            return False
    return True


def raw_node(path, uid):
    with h5py.File(path, "r") as h5:
        base = list(h5)[0]
        node = h5[base]["Data"]["{" + str(uid) + "}"]
        ds = node["Data"] if "Data" in node else None
        raw = None if ds is None else ds[()]
        tnode = node["Type"]
        vm = tnode["Value map"][()] if "Value map" in tnode else None
        return raw, (None if ds is None else ds.dtype), vm


def run_case(case, rec):
    warnings.simplefilter("ignore")
    rng = random.Random(case["seed"])
    d = tempfile.mkdtemp(prefix="gvm_")
    try:
        {"shape": do_shape, "gaps": do_gaps, "numeric": do_numeric, "strings": do_strings, "valuemap": do_valuemap, "blob": do_blob, "depths": do_depths, "comments": do_comments, "metadata": do_metadata}[case["kind"]](case, rec, rng, d)
    finally:
        shutil.rmtree(d, ignore_errors=True)
        gc.collect()


def do_gaps(case, rec, rng, d):
    """Fewer values than elements: the missing entries are gaps, stored with the format's no-data code of the channel's kind
    whatever dtype the caller's (shorter) array had."""
    from geoh5py.objects import Points
    from geoh5py.shared import FLOAT_NDV, INTEGER_NDV
    from geoh5py.workspace import Workspace

    kind, entry, dtype = case["dkind"], case["entry"], case["dtype"]
    dt = np.dtype(dtype)
    n, k = 6, rng.randint(2, 4)
    path = os.path.join(d, "g.geoh5")
    ws = Workspace.create(path)
    pts = Points.create(ws, vertices=np.arange(3 * n, dtype=float).reshape(n, 3), name="p")
    if kind == "boolean":
        given = np.array([1, 0, 1, 1][:k]).astype(dt)
    elif kind == "referenced":
        given = np.array([1, 2, 3, 2][:k]).astype(dt)
    else:
        given = np.array([3, 7, 100, 1][:k]).astype(dt)
    spec = {"values": given.copy(), "association": "VERTEX", "type": kind}
    if kind == "referenced":
        spec["value_map"] = {1: "a", 2: "b", 3: "c"}
    label = f"{kind}:short:{dt.kind}{dt.itemsize * 8}"
    try:
        if entry == "add_data":
            data = pts.add_data({"g": spec})
        else:
            full = {"float": np.zeros(n), "integer": np.zeros(n, dtype="int32"), "boolean": np.zeros(n, dtype=bool), "referenced": np.ones(n, dtype="int32")}[kind]
            data = pts.add_data({"g": dict(spec, values=full)})
            data.values = given.copy()
    except Exception as exc:  # noqa: BLE001
        if not exc_origin(exc)[0]:
            raise
        rec.see("short-arrays-refused")
        rec.see(f"refused-short:{kind}:{dt.kind}")
        ws.close()
        rec.nontrivial = True
        rec.shape = ["gaps", kind, entry, dtype, "refused"]
        return
    rec.see("short-arrays-accepted")
    head = [bool(x) for x in given.tolist()] if kind == "boolean" else [float(x) if kind == "float" else int(x) for x in given.tolist()]
    uid = data.uid

    def judge(vals, where):
        if vals is None or len(vals) != n:
            rec.fail("C08.roundtrip", op=entry + where, cls=kind, attr=label, detail=f"{k} of {n} values given as {dtype}: channel reads {None if vals is None else list(vals)}")
            return
        got_head = [bool(x) for x in vals[:k]] if kind == "boolean" else [float(x) if kind == "float" else int(x) for x in vals[:k]]
        rec.check("C08.roundtrip", got_head == head, op=entry + where, cls=kind, attr=label, detail=f"given {head}, channel starts with {got_head}")
        tail = list(vals[k:])
        if kind == "float":
            ok = all(x != x for x in tail)
        elif kind in ("integer", "referenced"):
            ok = all(int(x) == INTEGER_NDV for x in tail) or (kind == "referenced" and all(int(x) == 0 for x in tail))
        else:
            ok = all(not bool(x) for x in tail)
        rec.check("C08.gap-code", ok, op=entry + where, cls=kind, attr=label, detail=f"the {n - k} missing entries read {tail} (expected the no-data value of {kind} data)")

    judge(None if data.values is None else data.values.tolist(), ":live")
    ws.close()
    ws2 = Workspace(path, mode="r")
    ent = ws2.get_entity(uid)[0]
    judge(None if ent is None or ent.values is None else ent.values.tolist(), ":reopened")
    ws2.close()
    raw, rdt, _vm = raw_node(path, uid)
    if raw is not None and kind in ("integer",):
        rec.check("C08.raw", rdt == np.dtype("int32") and [int(x) for x in raw[k:]] == [INTEGER_NDV] * (n - k), op=entry, cls=kind, attr=label, detail=f"raw tail {raw[k:].tolist()} dtype {rdt}, expected int32 {INTEGER_NDV}")
    if raw is not None and kind == "float":
        rec.check("C08.raw", all(abs(float(x) - FLOAT_NDV) <= abs(FLOAT_NDV) * 1e-6 for x in raw[k:]), op=entry, cls=kind, attr=label, detail=f"raw tail {raw[k:].tolist()}, expected the float no-data code")
    rec.nontrivial = True
    rec.shape = ["gaps", kind, entry, dtype, "accepted"]
    rec.sample = {"kind": "gaps", "dkind": kind, "dtype": dtype}


def do_shape(case, rec, rng, d):
    """An array with more entries than the geometry has elements is rejected, whatever its shape; one with exactly as many is
    stored entry for entry, never more."""
    from geoh5py.objects import Curve
    from geoh5py.workspace import Workspace

    kind, entry = case["dkind"], case["entry"]
    n = 6
    path = os.path.join(d, "s.geoh5")
    ws = Workspace.create(path)
    obj = Curve.create(ws, vertices=np.arange(3 * n, dtype=float).reshape(n, 3), name="c")  # n vertices, n - 1 cells
    dt = {"float": float, "integer": "int32", "referenced": "int32", "boolean": bool}[kind]
    extra = {"integer": {"type": "integer"}, "referenced": {"type": "referenced", "value_map": {1: "a", 2: "b"}}}.get(kind, {})

    def make(count):
        base = (np.arange(count) % 2 + 1)
        return (base.astype(dt) if kind != "boolean" else (base == 1))

    shapes = [("2-D (n, 2)", lambda m: make(2 * m).reshape(m, 2), True), ("2-D (n, 3)", lambda m: make(3 * m).reshape(m, 3), True), ("1-D n + 1", lambda m: make(m + 1), True),
              ("1-D 2n", lambda m: make(2 * m), True), ("2-D (n, 1)", lambda m: make(m).reshape(m, 1), False), ("2-D (1, n)", lambda m: make(m).reshape(1, m), False), ("1-D n", lambda m: make(m), False)]
    seen = []
    for assoc, m in (("VERTEX", n), ("CELL", n - 1)):
        for label, build_arr, too_many in shapes:
            arr = build_arr(m)
            name = f"{assoc[0]}{len(seen)}"
            target = None
            err = None
            try:
                if entry == "add_data":
                    target = obj.add_data({name: {"values": arr, "association": assoc, **extra}})
                else:
                    target = obj.add_data({name: {"values": make(m), "association": assoc, **extra}})
                    target.values = arr
            except Exception as exc:  # noqa: BLE001
                if not exc_origin(exc)[0]:
                    raise
                err = exc
            seen.append((assoc, label, err is None))
            rec.see("shape-cells")
            if too_many:
                if err is not None:
                    rec.see("rejected-as-required")
                    continue
                held = None if target is None or target.values is None else len(np.ravel(target.values))
                rec.check("C08.silently-altered", False, op=entry, cls=kind, attr=f"too-many-entries:{label}", detail=f"{arr.size} entries given for {m} {assoc.lower()} elements ({label}) were accepted; the data now holds {held} entries")
            elif err is None and target is not None:
                held = None if target.values is None else len(np.ravel(target.values))
                rec.check("C08.roundtrip", held == m, op=entry + ":live", cls=kind, attr=f"shape:{label}", detail=f"{label} with {m} entries for {m} elements is held as {held} entries")
    # an unsupported element type: complex numbers cannot be stored in any of the kinds
    for cdt in ("complex64", "complex128"):
        arr = (np.arange(n) % 2 + 1).astype(cdt) + (0 if kind == "boolean" else 0) + 1j * np.array([2, 0, 1, 0, 5, 0][:n])
        target = err = None
        try:
            if entry == "add_data":
                target = obj.add_data({f"cx{cdt}": {"values": arr, "association": "VERTEX", **extra}})
            else:
                target = obj.add_data({f"cx{cdt}": {"values": make(n), "association": "VERTEX", **extra}})
                target.values = arr
        except Exception as exc:  # noqa: BLE001
            if not exc_origin(exc)[0]:
                raise
            err = exc
        rec.see("unsupported-dtype-cells")
        if err is not None:
            rec.see("rejected-as-required")
        else:
            held = None if target is None or target.values is None else np.asarray(target.values).tolist()
            rec.check("C08.silently-altered", False, op=entry, cls=kind, attr=f"unsupported-type:{cdt}", detail=f"values {arr.tolist()} ({cdt}) were accepted; the data now holds {held}")
    uid = obj.uid
    ws.close()
    with Workspace(path, mode="r") as ws2:
        o2 = ws2.get_entity(uid)[0]
        for c in o2.children:
            if not hasattr(c, "values") or c.name == "Visual Parameters":
                continue
            try:
                v = c.values
                cnt = o2.n_vertices if c.association.name == "VERTEX" else o2.n_cells
                rec.check("C08.roundtrip", v is None or len(v) == cnt, op=entry + ":reopened", cls=kind, attr="entry-count", detail=f"{c.name}: {None if v is None else len(v)} entries read back for {cnt} elements")
            except Exception as exc:  # noqa: BLE001
                rec.fail("C08.roundtrip", op=entry + ":reopened", cls=kind, attr="unreadable", detail=f"{c.name} cannot be read back: {type(exc).__name__}: {exc}")
    rec.nontrivial = True
    rec.shape = ["shape", kind, entry]
    rec.sample = {"kind": kind, "entry": entry, "shapes": seen[:8]}


def do_numeric(case, rec, rng, d):
    from geoh5py.objects import Points
    from geoh5py.shared import FLOAT_NDV, INTEGER_NDV
    from geoh5py.workspace import Workspace

    kind, entry, dtype = case["dkind"], case["entry"], case["dtype"]
    n = 1 if case.get("rep", 0) % 3 == 2 else 5  # one-entry channels (an object with a single vertex) every third repetition
    rec.see(f"channel-length:{n}")
    path = os.path.join(d, "v.geoh5")
    ws = Workspace.create(path)
    pts = Points.create(ws, vertices=np.arange(3 * n, dtype=float).reshape(n, 3), name="p")
    shapes = []
    plan = []
    for mag in MAGS:
        special = magnitude(mag, dtype)
        if special is None:
            rec.see("cells-not-expressible")
            continue
        dt = np.dtype(dtype)
        if dt.kind == "b":
            filler = [bool(rng.getrandbits(1)) for _ in range(n - 1)]
        elif kind == "boolean":
            filler = [rng.choice([0, 1]) for _ in range(n - 1)]
        elif kind == "referenced":
            filler = [rng.choice([1, 2, 3]) for _ in range(n - 1)]
        else:
            filler = [rng.choice([0, 1, 3, 7, 100]) for _ in range(n - 1)]
        pos = rng.randrange(n)
        vals = filler[:pos] + [special] + filler[pos:]
        arr = np.array(vals, dtype=dt)
        plan.append((mag, arr))
    for mag, arr in plan:
        rec.see("numeric-cells")
        ok, exp = representable(kind, arr)
        cell = f"{dtype}:{mag}"
        shapes.append(cell)
        if ok is None:
            rec.see("cells-unclassified")
            continue
        name = f"{kind}_{mag}"
        passed = arr.copy()  # the caller's buffer: it is overwritten after the call (the library must not alias it)
        spec = {"values": passed, "association": "VERTEX", "type": kind}
        if kind == "referenced":
            keys = sorted({int(v) for v in (exp or []) if v >= 0} | {1, 2, 3}) if ok else [1, 2, 3]
            spec["value_map"] = {k: f"label-{k}" for k in keys if k != 0}
        accepted, data, err = True, None, None
        try:
            if entry == "add_data":
                data = pts.add_data({name: spec})
            else:
                base_vals = {"float": np.zeros(n), "integer": np.zeros(n, dtype="int32"), "boolean": np.zeros(n, dtype=bool), "referenced": np.ones(n, dtype="int32")}[kind]
                s0 = dict(spec, values=base_vals)
                data = pts.add_data({name: s0})
                passed = arr.copy()
                data.values = passed
        except Exception as exc:  # noqa: BLE001
            if not exc_origin(exc)[0]:
                raise
            accepted, err = False, f"{type(exc).__name__}: {str(exc)[:120]}"
        attr = f"{kind}:{mag}"
        if not ok:
            if not accepted:
                rec.see("rejected-as-required")
                rec.evals["C08.silently-altered"] += 1
                continue
            got = data.values.tolist() if data is not None and data.values is not None else None
            rec.fail("C08.silently-altered", op=entry, cls=kind, attr=f"{mag}:{np.dtype(dtype).kind}{np.dtype(dtype).itemsize * 8}", detail=f"{dtype} values {short(canon(arr), 160)} cannot be represented as {kind} but were accepted and read back as {short(canon(got), 160)}")
            continue
        if not accepted:
            # the statement never obliges the library to accept: a refusal cannot alter a value
            rec.see("representable-but-refused")
            rec.see(f"refused:{kind}:{np.dtype(dtype).kind}")
            continue
        try:
            passed[...] = passed.dtype.type(1) if passed.dtype.kind != "b" else True
            if passed.dtype.kind != "b":
                passed[...] = passed + passed.dtype.type(1)
            rec.see("caller-buffers-overwritten")
        except (ValueError, TypeError):
            pass
        live = data.values.tolist()
        rec.check("C08.roundtrip", same_list(live, exp), op=entry + ":live", cls=kind, attr=attr, detail=f"{dtype} written {short(canon(arr), 200)} live read {short(canon(live), 200)} expected {short(canon(exp), 200)}")
        plan_uid = data.uid
        case.setdefault("_judge", []).append((plan_uid, kind, mag, dtype, exp, entry))
    ws.close()
    # everything once more from the closed file: API and raw encoding
    ws2 = Workspace(path, mode="r")
    for uid, kind, mag, dtype, exp, entry in case.pop("_judge", []):
        attr = f"{kind}:{mag}"
        ent = ws2.get_entity(uid)[0]
        got = None if ent is None or ent.values is None else ent.values.tolist()
        rec.check("C08.roundtrip", same_list(got, exp), op=entry + ":reopened", cls=kind, attr=attr, detail=f"{dtype} re-opened read {short(canon(got), 200)} expected {short(canon(exp), 200)}")
        raw, rdt, vm = raw_node(path, uid)
        ok_raw, why = True, ""
        if raw is None:
            ok_raw, why = False, "no Data dataset"
        elif kind == "float":
            want = [FLOAT_NDV if (isinstance(v, float) and v != v) else v for v in exp]
            ok_raw = rdt.kind == "f" and same_list([float(x) for x in raw.tolist()], [float(x) for x in want])
            why = f"raw {raw.tolist()} dtype {rdt} expected {want} (NaN as the float no-data code)"
        elif kind in ("integer", "referenced"):
            ok_raw = rdt == np.dtype("int32") and raw.tolist() == exp
            why = f"raw {raw.tolist()} dtype {rdt} expected int32 {exp}"
            if ok_raw and kind == "referenced":
                keys = {int(kv[0]): (kv[1].decode() if isinstance(kv[1], bytes) else str(kv[1])) for kv in (vm.tolist() if vm is not None else [])}
                ok_raw = keys.get(0) == "Unknown"
                why = f"Value map {keys} lacks key 0 = 'Unknown'"
        elif kind == "boolean":
            ok_raw = rdt == np.dtype("int8") and raw.tolist() == [int(v) for v in exp]
            why = f"raw {raw.tolist()} dtype {rdt} expected int8 0/1 {[int(v) for v in exp]}"
        rec.check("C08.raw", ok_raw, op=entry, cls=kind, attr=attr, detail=f"{dtype}: {why}")
    ws2.close()
    rec.nontrivial = True
    rec.shape = ["numeric", kind, entry, dtype, shapes]
    rec.sample = {"kind": kind, "entry": entry, "dtype": dtype, "cells": shapes[:6]}


# ------------------------------------------------------------------------------------------
STRINGS = [
    "", "a", "plain ascii", "é à ü ß", "Ωμέγα", "日本語テキスト", "עברית", "\U0001F600 emoji \U0001F680", "astral \U00010348 \U0002070E", "tab\tand\nnewline", "quote \" backslash \\ slash /",
    "x" * 5000, " leading and trailing ", "null-free \x01 control", "{not-a-uuid}", "1.5", "nan", "None",
]


def do_strings(case, rec, rng, d):
    from geoh5py.objects import Points
    from geoh5py.workspace import Workspace

    path = os.path.join(d, "s.geoh5")
    ws = Workspace.create(path)
    n = 4
    pts = Points.create(ws, vertices=np.zeros((n, 3)), name="p")
    v = case["variant"]
    rec.see("strings")
    judge = []
    if v < len(STRINGS):
        s = STRINGS[v]
        if s == "":
            s = "non-empty after all" if rng.random() < 0.5 else ""
        mode = "object-str"
        written = s
        try:
            dta = pts.add_data({"t": {"values": s, "association": "OBJECT"}})
        except Exception as exc:  # noqa: BLE001
            if not exc_origin(exc)[0]:
                raise
            rec.fail("C08.rejected-representable", op="add_data", cls="text", attr=mode, detail=f"string {s[:40]!r} rejected: {type(exc).__name__}: {exc}")
            ws.close()
            return
        judge.append((dta.uid, written, mode))
        # and through the setter
        s2 = rng.choice(STRINGS[1:9]) + " / " + s[:50]
        dtb = pts.add_data({"t2": {"values": "seed", "association": "OBJECT"}})
        dtb.values = s2
        judge.append((dtb.uid, s2, "object-str-setter"))
    elif v < len(STRINGS) + 3:
        arr = np.array([rng.choice(STRINGS[1:10]) for _ in range(n)])
        dta = pts.add_data({"ta": {"values": arr.copy(), "association": "VERTEX", "type": "text"}})
        judge.append((dta.uid, arr.tolist(), "vertex-array"))
        # the same labels once more through a copy of the channel that keeps some entries and blanks the others
        mask = np.array([True, False, True, True])
        cp = dta.copy(mask=mask, name="ta masked")
        judge.append((cp.uid, [x if m else "" for x, m in zip(arr.tolist(), mask)], "vertex-array-masked-copy"))
    else:
        b = rng.choice(STRINGS[1:9]).encode("utf-8")
        dta = pts.add_data({"tb": {"values": "seed", "association": "OBJECT"}})
        dta.values = b
        judge.append((dta.uid, b.decode("utf-8"), "bytes-setter"))
    for uid, written, mode in judge:
        e = ws.get_entity(uid)[0]
        live = e.values.tolist() if isinstance(e.values, np.ndarray) else e.values
        rec.check("C08.roundtrip", live == written, op="text:live", cls="text", attr=mode, detail=f"written {short(written)} live {short(live)}")
    ws.close()
    ws2 = Workspace(path, mode="r")
    for uid, written, mode in judge:
        e = ws2.get_entity(uid)[0]
        got = None if e is None else (e.values.tolist() if isinstance(e.values, np.ndarray) else e.values)
        rec.check("C08.roundtrip", got == written, op="text:reopened", cls="text", attr=mode, detail=f"written {short(written)} re-opened {short(got)}")
        raw, rdt, _ = raw_node(path, uid)
        flat = raw.tolist() if isinstance(raw, np.ndarray) else [raw]
        dec = [x.decode("utf-8") if isinstance(x, bytes) else x for x in flat]
        want = written if isinstance(written, list) else [written]
        rec.check("C08.raw", dec == want, op="text", cls="text", attr=mode, detail=f"raw dataset decodes (UTF-8) to {short(dec)} expected {short(want)}")
    ws2.close()
    rec.nontrivial = True
    rec.shape = ["strings", v]
    rec.sample = {"strings": [short(j[1], 60) for j in judge]}


def do_valuemap(case, rec, rng, d):
    from geoh5py.objects import Points
    from geoh5py.workspace import Workspace

    path = os.path.join(d, "m.geoh5")
    ws = Workspace.create(path)
    pts = Points.create(ws, vertices=np.zeros((4, 3)), name="p")
    v = case["variant"]
    rec.see("value-maps")
    maps = [
        ({1: "A", 2: "B"}, True), ({1: "é", 5: "日本", 900: "far"}, True), ({0: "Unknown", 3: "c"}, True), ({2**31 - 1: "big", 1: "a"}, True),
        ({0: "Zero", 1: "a"}, False), ({-1: "neg", 1: "a"}, False), ({1: 5, 2: "b"}, False), ({1.5: "x"}, False),
    ]
    vm, valid = maps[v]
    keys = [k for k in vm if isinstance(k, int) and k > 0] or [1]
    vals = np.array([keys[i % len(keys)] for i in range(4)], dtype="int32")
    try:
        data = pts.add_data({"r": {"values": vals, "association": "VERTEX", "type": "referenced", "value_map": dict(vm)}})
        accepted = True
    except Exception as exc:  # noqa: BLE001
        if not exc_origin(exc)[0]:
            raise
        accepted = False
        err = f"{type(exc).__name__}: {exc}"
    if not valid:
        rec.check("C08.silently-altered", not accepted, op="value_map", cls="referenced", attr=f"invalid-map-{v}", detail=f"value map {vm} violates the key/label rules but was accepted")
        rec.see("rejected-as-required")
    elif not accepted:
        rec.fail("C08.rejected-representable", op="value_map", cls="referenced", attr=f"map-{v}", detail=f"valid value map {vm} rejected: {err}")
    else:
        want = dict(vm)
        want.setdefault(0, "Unknown")
        uid = data.uid
        live = dict(data.entity_type.value_map.map)
        rec.check("C08.roundtrip", live == want, op="value_map:live", cls="referenced", attr=f"map-{v}", detail=f"map {live} expected {want}")
        ws.close()
        ws2 = Workspace(path, mode="r")
        e = ws2.get_entity(uid)[0]
        got = {int(k): v2 for k, v2 in dict(e.entity_type.value_map.map).items()}
        rec.check("C08.roundtrip", got == want, op="value_map:reopened", cls="referenced", attr=f"map-{v}", detail=f"re-opened map {got} expected {want}")
        rec.check("C08.roundtrip", e.values.tolist() == vals.tolist(), op="value_map:reopened", cls="referenced", attr="values", detail=f"values {e.values.tolist()} expected {vals.tolist()}")
        _, _, raw = raw_node(path, uid)
        rawd = {int(kv[0]): (kv[1].decode() if isinstance(kv[1], bytes) else str(kv[1])) for kv in raw.tolist()} if raw is not None else None
        rec.check("C08.raw", rawd == want and raw.dtype.names == ("Key", "Value"), op="value_map", cls="referenced", attr=f"map-{v}", detail=f"'Value map' dataset {rawd} expected {want}")
        ws2.close()
        # a later session logs one more unit: the label is added to the map in place, then the map is stored again
        ws3 = Workspace(path, mode="r+")
        e = ws3.get_entity(uid)[0]
        new_key = max(k for k in want) + 1 if max(want) < 2**31 - 1 else 7
        vmap = e.value_map
        how = ["setitem-then-assign-copy", "setitem-then-assign-same", "assign-extended-dict"][case.get("rep", 0) % 3 if "rep" in case else v % 3]
        label = "ajouté ü"
        try:
            if how == "assign-extended-dict":
                e.entity_type.value_map = {**{k: x for k, x in want.items()}, new_key: label}
            else:
                vmap[new_key] = label
                e.entity_type.value_map = dict(vmap()) if how == "setitem-then-assign-copy" else vmap
            edited = True
        except Exception as exc:  # noqa: BLE001
            if not exc_origin(exc)[0]:
                raise
            edited = False
            rec.see("value-map-edit-refused:" + type(exc).__name__)
        if edited:
            want2 = {**want, new_key: label}
            live2 = {int(k): x for k, x in dict(e.entity_type.value_map.map).items()}
            rec.check("C08.roundtrip", live2 == want2, op="value_map:edited-live", cls="referenced", attr=how, detail=f"map after the edit {live2} expected {want2}")
            ws3.close()
            ws4 = Workspace(path, mode="r")
            got2 = {int(k): x for k, x in dict(ws4.get_entity(uid)[0].entity_type.value_map.map).items()}
            rec.check("C08.roundtrip", got2 == want2, op="value_map:edited-reopened", cls="referenced", attr=how, detail=f"label added in a later session ({how}): a fresh reader sees {got2}, expected {want2}")
            ws4.close()
            rec.see("value-map-edits")
        else:
            ws3.close()
    try:
        ws.close()
    except Exception:  # noqa: BLE001
        pass
    rec.nontrivial = True
    rec.shape = ["valuemap", v]
    rec.sample = {"map": {str(k): str(x) for k, x in vm.items()}, "valid": valid}


def do_blob(case, rec, rng, d):
    from geoh5py.objects import Points
    from geoh5py.workspace import Workspace

    path = os.path.join(d, "b.geoh5")
    ws = Workspace.create(path)
    pts = Points.create(ws, vertices=np.zeros((2, 3)), name="p")
    v = case["variant"]
    rec.see("blobs")
    blobs = [b"\x00", b"\x00\x01\x02\xff\xfe", bytes(range(256)), b"trailing zeros\x00\x00\x00", bytes(rng.randrange(256) for _ in range(3000)), "utf8 é".encode()]
    blob = blobs[v]
    name = ["f.bin", "é name.dat", "with space.txt", "a.b.c", "x" * 60 + ".bin", "z"][v]
    dta = pts.add_file(blob, name=name)
    uid = dta.uid
    rec.check("C08.roundtrip", dta.values == blob and dta.file_name == name, op="blob:live", cls="file", attr=f"blob-{v}", detail=f"live blob {dta.values[:20]!r} name {dta.file_name!r}")
    ws.close()
    ws2 = Workspace(path, mode="r")
    e = ws2.get_entity(uid)[0]
    rec.check("C08.roundtrip", e is not None and e.values == blob and e.file_name == name, op="blob:reopened", cls="file", attr=f"blob-{v}", detail=f"blob of {len(blob)} bytes read back as {None if e is None or e.values is None else len(e.values)} bytes, equal={None if e is None else e.values == blob}; name {None if e is None else e.file_name!r}")
    ws2.close()
    # the stored file is renamed in a later session (the bytes were not read in that session in half of the cases)
    new_name = ["renamed.bin", "é2.dat", "other name.txt", "a.b.d", "y" * 40 + ".bin", "zz"][v]
    ws3 = Workspace(path, mode="r+")
    e = ws3.get_entity(uid)[0]
    if (v + case["rep"]) % 2:
        _ = e.values
    try:
        e.file_name = new_name
        renamed = True
    except Exception as exc:  # noqa: BLE001
        if not exc_origin(exc)[0]:
            raise
        renamed = False
        rec.see("file-renames-refused:" + type(exc).__name__)
    del e
    ws3.close()
    if renamed:
        rec.see("stored-files-renamed")
        ws4 = Workspace(path, mode="r")
        e = ws4.get_entity(uid)[0]
        rec.check("C08.roundtrip", e is not None and e.values == blob and e.file_name == new_name, op="blob:renamed", cls="file", attr=f"blob-{v}", detail=f"stored file renamed to {new_name!r} in a later session: blob of {len(blob)} bytes reads back as {None if e is None or e.values is None else len(e.values)} bytes, equal={None if e is None else e.values == blob}; name {None if e is None else e.file_name!r}")
        ws4.close()
    rec.nontrivial = True
    rec.shape = ["blob", v]
    rec.sample = {"blob_len": len(blob), "name": name}


def do_depths(case, rec, rng, d):
    """Channels logged on a drillhole at given depths (in the order the samples were taken, several channels per call or one call
    each): every value reads back at its own depth, and depths a channel has no value for hold the no-data marker of its kind."""
    from geoh5py.objects import Drillhole
    from geoh5py.shared import INTEGER_NDV
    from geoh5py.workspace import Workspace

    path = os.path.join(d, "dh.geoh5")
    ws = Workspace.create(path)
    hole = Drillhole.create(ws, collar=np.r_[0.0, 0.0, 0.0], surveys=np.c_[[0.0, 200.0], [0.0, 0.0], [-90.0, -90.0]], name="h")
    pool = [2.5 * i for i in range(1, 30)]
    n_ch = 2 + case["variant"] % 3
    spec, expect = {}, {}
    for c in range(n_ch):
        k = rng.randint(2, 6)
        depths = rng.sample(pool, k)
        if case["variant"] % 4 == 3:
            depths = sorted(depths)
        kind = ["float", "integer", "float"][(c + case["variant"]) % 3]
        vals = (np.array(depths) * 10 + c + 0.25) if kind == "float" else (np.array(depths) * 4 + c).astype("int32")
        spec[f"ch{c}"] = {"depth": np.array(depths), "values": vals.copy()}
        if kind == "integer":
            spec[f"ch{c}"]["type"] = "integer"
        expect[f"ch{c}"] = (kind, dict(zip(depths, vals.tolist())))
    one_call = case["variant"] % 2 == 0
    rec.see("depth-logs:one-call" if one_call else "depth-logs:call-per-channel")
    try:
        if one_call:
            hole.add_data({k: dict(v, depth=v["depth"].copy(), values=v["values"].copy()) for k, v in spec.items()})
        else:
            for k, v in spec.items():
                hole.add_data({k: dict(v, depth=v["depth"].copy(), values=v["values"].copy())})
    except Exception as exc:  # noqa: BLE001
        if not exc_origin(exc)[0]:
            raise
        rec.see("depth-logs-refused:" + type(exc).__name__)
        ws.close()
        rec.nontrivial = True
        rec.shape = ["depths", case["variant"], "refused"]
        return
    uid = hole.uid

    def judge(h, where):
        depths = np.asarray(h.depths.values if hasattr(h, "depths") and h.depths is not None else [])
        for name, (kind, by_depth) in expect.items():
            dd = h.get_data(name)[0]
            vals = None if dd is None or dd.values is None else np.asarray(dd.values)
            if vals is not None and where == ":live" and len(vals) < len(depths):
                # the cached array of an earlier channel is completed when it is next read from the file: the vertices added
                # since are gaps of that channel
                rec.see("live-arrays-shorter-than-the-hole")
                vals = np.r_[vals.astype(float) if kind == "float" else vals, [np.nan if kind == "float" else INTEGER_NDV] * (len(depths) - len(vals))]
            if vals is None or len(vals) != len(depths):
                rec.fail("C08.roundtrip", op="depths" + where, cls=kind, attr="depth-log", detail=f"{name}: {None if vals is None else len(vals)} values for {len(depths)} depths")
                continue
            bad, gaps_bad = [], []
            for i, dep in enumerate(depths.tolist()):
                key = next((q for q in by_depth if abs(q - dep) < 1e-6), None)
                if key is not None:
                    if not float(vals[i]) == float(by_depth[key]):
                        bad.append((dep, by_depth[key], vals[i].item()))
                elif kind == "float" and not vals[i] != vals[i]:
                    gaps_bad.append((dep, vals[i].item()))
                elif kind == "integer" and int(vals[i]) != INTEGER_NDV:
                    gaps_bad.append((dep, vals[i].item()))
            missing = [q for q in by_depth if not any(abs(q - dep) < 1e-6 for dep in depths.tolist())]
            rec.check("C08.roundtrip", not bad and not missing, op="depths" + where, cls=kind, attr="depth-log", detail=f"{name} ({'one call' if one_call else 'own call'}): (depth, logged, read) {bad[:4]}; logged depths absent from the hole {missing[:4]}")
            rec.check("C08.gap-code", not gaps_bad, op="depths" + where, cls=kind, attr="depth-log", detail=f"{name}: depths without a logged value read (depth, value) {gaps_bad[:4]}")

    judge(hole, ":live")
    del hole
    ws.close()
    ws2 = Workspace(path, mode="r")
    judge(ws2.get_entity(uid)[0], ":reopened")
    ws2.close()
    rec.see("depth-logs")
    rec.nontrivial = True
    rec.shape = ["depths", case["variant"], n_ch, sorted((k, v[0], len(v[1])) for k, v in expect.items())]
    rec.sample = {"kind": "depths", "channels": n_ch, "one_call": one_call}


def do_comments(case, rec, rng, d):
    from geoh5py.objects import Points
    from geoh5py.workspace import Workspace

    path = os.path.join(d, "c.geoh5")
    ws = Workspace.create(path)
    pts = Points.create(ws, vertices=np.zeros((2, 3)), name="p")
    rec.see("comments")
    texts = [rng.choice(STRINGS[1:12]) for _ in range(1 + case["variant"])]
    for t in texts:
        pts.add_comment(t, author="aut é")
    uid = pts.uid
    live = [c["Text"] for c in pts.comments.values]
    rec.check("C08.roundtrip", live == texts, op="comments:live", cls="comments", attr="", detail=f"{live} expected {texts}")
    ws.close()
    ws2 = Workspace(path, mode="r")
    p2 = ws2.get_entity(uid)[0]
    got = [c["Text"] for c in p2.comments.values] if p2.comments is not None else None
    auth = [c["Author"] for c in p2.comments.values] if p2.comments is not None else None
    rec.check("C08.roundtrip", got == texts and auth == ["aut é"] * len(texts), op="comments:reopened", cls="comments", attr="", detail=f"{got} / {auth} expected {texts}")
    ws2.close()
    rec.nontrivial = True
    rec.shape = ["comments", case["variant"]]
    rec.sample = {"comments": [t[:40] for t in texts]}


def do_metadata(case, rec, rng, d):
    from geoh5py.objects import Points
    from geoh5py.workspace import Workspace

    path = os.path.join(d, "md.geoh5")
    ws = Workspace.create(path)
    pts = Points.create(ws, vertices=np.zeros((2, 3)), name="p")
    rec.see("metadata")
    u1, u2 = uuid.uuid4(), uuid.uuid4()
    metas = [
        {"a": 1, "b": 2.5, "c": "text é", "d": [1, 2, 3]},
        {"id": u1, "nested": {"inner": u2, "k": "v"}},
        {"empty": {}, "list": [], "none": None, "flag": True},
        {"Ωkey": "日本", "deep": {"x": {"y": 1}}},
    ]
    meta = metas[case["variant"]]
    pts.metadata = meta
    uid = pts.uid
    want = canon(meta)
    rec.check("C08.roundtrip", canon(pts.metadata) == want, op="metadata:live", cls="metadata", attr=str(case["variant"]), detail=f"{short(canon(pts.metadata))} expected {short(want)}")
    ws.close()
    ws2 = Workspace(path, mode="r")
    p2 = ws2.get_entity(uid)[0]
    got = canon(p2.metadata)
    rec.check("C08.roundtrip", got == want, op="metadata:reopened", cls="metadata", attr=str(case["variant"]), detail=f"{short(got)} expected {short(want)}")
    ws2.close()
    rec.nontrivial = True
    rec.shape = ["metadata", case["variant"]]
    rec.sample = {"metadata": short(want, 200)}
