"""C06 — identifiers are unique within a workspace and stable across copies.

Seeded histories of create / copy / remove / re-create with and without caller-supplied uids over
one or two workspaces.  After every operation: no two live entities (any kind) or types share a
uid, a look-up by uid returns exactly its owner, all entities of one object/group class share one
type.  An explicit request to reuse a uid in use must be refused without side effects (public view
and file digests identical); a same-workspace copy gets fresh uids for entity, children and property
groups; a copy into another workspace keeps every uid that is free there."""
from __future__ import annotations

import gc
import os
import random
import shutil
import uuid

import numpy as np

from .. import gen, hist, snap
from ..core import diff_paths, short

PROP = "C06"
LEVEL = "exploration"
RULE = (
    "case = one seeded history with explicit uid-reuse requests (same kind / other kind / removed-and-collected uid), "
    "same-workspace and cross-workspace copies (also copies of copies and copies into a workspace already holding the uid). "
    "Non-trivial = >= 1 copy or reuse request judged on >= 3 entities; distinct = distinct op/class sequence."
)
ASSUMPTIONS = ["uuid4 collisions are not injected (2^-122 events are outside the property)", "a uid whose owner was removed and collected is free again"]


def floors(tier):
    return {"C06.unique": 1500, "C06.lookup": 1500, "reuse-requests:same": 20, "reuse-requests:other": 20, "reuse-after-removal": 10, "copies-same-ws": 40, "copies-other-ws": 40, "C06.type-shared": 300}


def gen_cases(tier, seed):
    n = 200 if tier == "quick" else 4000
    scripted = [{"kind": "recreate-script", "profile": "recreate-script", "old": old, "new": new, "via": via, "collect": collect, "stored": stored}
                for old in ("group", "object", "data") for new in ("group", "object", "data") for via in ("workspace", "parent") for collect in (True, False) for stored in (False, True)]
    scripted += [{"kind": "type-script", "profile": "type-script", "as": a, "stored": st} for a in ("data-type-with-object-type-uid", "data-type-with-group-type-uid", "second-data-type-same-uid") for st in (False, True)]
    scripted += [{"kind": "copyback-script", "profile": "copyback-script", "collect": c, "with_pg": w, "via": v} for c in (True, False) for w in (True, False) for v in ("workspace", "parent")]
    scripted += [{"kind": "refused-then-used", "profile": "refused-then-used", "how": h, "stored": st, "gclass": g} for h in ("recreate", "move") for st in (False, True) for g in ("ContainerGroup", "SimPEGGroup")]
    scripted += [{"kind": "aged-script", "profile": "aged-script", "shape": sh, "ages": a, "nested": nst, "from_copy": fc} for sh in ("points", "curve-pg", "survey-pair") for a in (1, 3) for nst in (False, True) for fc in (False, True)]
    return scripted + [{"kind": "history", "profile": ["reuse", "copy", "mixed"][i % 3], "n_ops": [10, 15, 22][i % 3] if tier == "quick" else [15, 30, 45][i % 3], "gc": ["default", "seeded", "every", "aggressive"][(i // 3) % 4], "refs": ["strong", "refetch", "drop"][(i // 9) % 3]} for i in range(n)]


PROFILES = {
    "reuse": {"dup_uid": 4.0, "remove_partial": 1.5, "remove": 2.5, "mk_object": 3.0, "add_data": 3.0, "recreate": 2.0, "pg_add": 1.5},
    "copy": {"copy": 4.0, "copy_out": 4.0, "copy_back": 2.0, "add_data": 4.0, "pg_add": 3.0, "mk_object": 3.0, "remove": 1.5},
    "mixed": {"dup_uid": 1.5, "remove_partial": 1.0, "copy": 2.0, "copy_out": 2.0, "recreate": 1.0, "copy_back": 1.0},
}


def all_entities(ws):
    """Every live entity through the public listings (kind, entity)."""
    out = []
    for kind in ("groups", "objects", "data", "property_groups"):
        for e in getattr(ws, kind):
            out.append((kind, e))
    return out


def subtree_uids(e):
    out = {str(e.uid)}
    for c in getattr(e, "children", None) or []:
        out |= subtree_uids(c)
    for pg in getattr(e, "property_groups", None) or []:
        out.add(str(pg.uid))
    return out


class C06Engine(hist.Engine):
    """Adds the identifier-specific operations to the shared engine."""

    def choose(self):
        k = super().choose()
        return k

    def op_recreate(self, op):
        """Create an entity with the uid of one that was removed (and collected): must be accepted."""
        if not self.model.removed:
            raise hist.ExpectedRefusal("nothing removed yet")
        self.refs.clear()
        gc.collect()
        if self.rng.random() < 0.5:  # reading the listings lets the workspace prune dead registry entries; half of the time it does not happen
            _ = self.ws.objects, self.ws.groups, self.ws.data
        else:
            self.rec.see("recreate-without-listing-read")
        u = self.rng.choice(sorted(self.model.removed))
        if self.ws.get_entity(uuid.UUID(u))[0] is not None:
            raise hist.ExpectedRefusal("still referenced")
        from geoh5py.objects import Points

        parent = self.pick_container()
        op.update(cls="Points", uid=u, parent=parent)
        p = Points.create(self.ws, parent=self.ent(parent), name=self.new_name("re"), vertices=np.zeros((2, 3)), uid=uuid.UUID(u))
        self.rec.see("reuse-after-removal")
        self.rec.check("C06.reuse-free-uid", p is not None and str(p.uid) == u, op="recreate", cls="Points", attr="uid", detail=f"asked for free uid {u}, got {None if p is None else p.uid}")
        n = hist.Node(u, "object", "Points", parent, p.name)
        self.model.nodes[u] = n
        self.model.removed.discard(u)
        if any(q.endswith(hist.br(u)) for q in self.parent_removed):
            # the node of the parent-route removal is still in the file (open finding): what is stored under this identifier
            # from now on is that node, and consequences are attributed to it
            self.stale_reuse.add(u)
        self.remember(p)

    def op_copy_back(self, op):
        """Copy something from the second workspace back into the first (uids may or may not be free)."""
        cands = [c for c in self.ws2.root.children]
        if not cands:
            raise hist.ExpectedRefusal("second workspace empty")
        src = self.rng.choice(cands)
        # identifiers of entities that were removed (through the parent: detached, possibly not collected yet) are free again
        before = {str(e.uid) for _, e in all_entities(self.ws)} - set(self.model.removed)
        undecided = {str(e.uid) for _, e in all_entities(self.ws)} & set(self.model.removed)
        src_uids = subtree_uids(src)
        op.update(cls=type(src).__name__, target=str(src.uid))
        new = src.copy(parent=self.ws.root, copy_children=True)
        self.rec.see("copies-other-ws")
        judge_cross_copy(self.rec, src, new, before, "copy_back", undecided)
        # learn the new subtree wholesale (names may now be ambiguous: model only tracks existence here)
        self._learn_foreign(new, self.model.root)

    def _learn_foreign(self, e, parent_uid):
        k = hist.kind_of(e)
        n = hist.Node(str(e.uid), k, type(e).__name__, parent_uid, e.name)
        n.dkind = "auto"
        self.model.nodes[n.uid] = n
        for c in getattr(e, "children", None) or []:
            if not snap._is_pg(c):
                self._learn_foreign(c, n.uid)


hist.DEFAULT_WEIGHTS.setdefault("recreate", 0.0)
hist.DEFAULT_WEIGHTS.setdefault("copy_back", 0.0)


def judge_cross_copy(rec, src, new, target_before, where, undecided=()):
    """Copy into another workspace keeps the originals' uids whenever they were free there.  `undecided`: identifiers of
    entities that were removed but may not have been collected yet: free or in use depending on the collector, either is right."""
    if new is None:
        rec.fail("C06.copy-other-ws-uid", op=where, cls=type(src).__name__, attr="none", detail="cross-workspace copy returned None")
        return
    pairs = [(src, new)]
    while pairs:
        s, n = pairs.pop()
        su = str(s.uid)
        if su in undecided:
            rec.see("copy-uid-undecided")
        elif su not in target_before:
            rec.check("C06.copy-other-ws-uid", str(n.uid) == su, op=where, cls=type(s).__name__, attr="uid", detail=f"uid {su} was free in the target but the copy got {n.uid}")
        else:
            rec.check("C06.copy-other-ws-uid", str(n.uid) != su, op=where, cls=type(s).__name__, attr="uid-in-use", detail=f"uid {su} was in use in the target and the copy reused it")
        sk = [c for c in (getattr(s, "children", None) or []) if not snap._is_pg(c)]
        nk = [c for c in (getattr(n, "children", None) or []) if not snap._is_pg(c)]
        for c in sk:
            m = [x for x in nk if x.name == c.name and type(x).__name__ == type(c).__name__]
            if len(m) == 1:
                pairs.append((c, m[0]))
        spg = {pg.name: pg for pg in (getattr(s, "property_groups", None) or [])}
        npg = {pg.name: pg for pg in (getattr(n, "property_groups", None) or [])}
        for name, pg in spg.items():
            if name in npg and str(pg.uid) not in target_before:
                rec.check("C06.pg-uid", str(npg[name].uid) == str(pg.uid), op=where, cls="PropertyGroup", attr="uid", detail=f"property group uid {pg.uid} was free in the target but the copy got {npg[name].uid}")


class C06Monitor(hist.Monitor):
    def __init__(self):
        self.snap0 = None
        self.dig0 = None
        self.uids0 = None

    def before(self, eng, op):
        if op["op"] in ("dup_uid",):
            self.snap0 = snap.api_snapshot(eng.ws)
            self.dig0 = snap.node_digests(snap.raw_snapshot(eng.ws.geoh5))
        if op["op"] in ("copy", "copy_out"):
            self.uids0 = {str(e.uid) for _, e in all_entities(eng.ws)}
            if eng.ws2 is not None:
                self.uids2 = {str(e.uid) for _, e in all_entities(eng.ws2)}

    def after(self, eng, op, ok):
        rec, ws = eng.rec, eng.ws
        kind = op["op"]
        # ---- refusal of an explicit reuse
        if kind == "dup_uid":
            rec.see("reuse-requests:" + op.get("collide", ""))
            cls = f"{op.get('cls', '')}->{op.get('as', '')}"
            if "accepted" in op:
                rec.fail("C06.reuse-accepted", op="dup_uid:" + op.get("collide", ""), cls=cls, attr="", detail=f"creating a {op.get('as')} with the uid of a live {op.get('cls')} was accepted ({op['accepted']})")
            else:
                snap1 = snap.api_snapshot(ws)
                same = self.snap0 == snap1
                d = [x[0] for x in diff_paths(self.snap0, snap1, limit=3)] if not same else []
                rec.check("C06.refusal-side-effect", same, op="dup_uid:" + op.get("collide", ""), cls=cls, attr="api", detail=f"refused reuse changed the public view at {d}")
                dig1 = snap.node_digests(snap.raw_snapshot(ws.geoh5))
                ch = sorted(p for p in set(self.dig0) | set(dig1) if self.dig0.get(p) != dig1.get(p))
                rec.check("C06.refusal-side-effect", not ch, op="dup_uid:" + op.get("collide", ""), cls=cls, attr="file", detail=f"refused reuse changed file nodes {ch[:4]}")
        # ---- copies
        if kind == "copy" and op.get("uid"):
            rec.see("copies-same-ws")
            new = ws.get_entity(uuid.UUID(op["uid"]))[0]
            if new is not None:
                fresh = subtree_uids(new)
                clash = fresh & self.uids0
                rec.check("C06.copy-same-ws-uid", not clash, op="copy", cls=op.get("cls", ""), attr="", detail=f"same-workspace copy shares identifiers with existing entities: {sorted(clash)[:3]}")
        if kind == "copy_out" and op.get("uid"):
            rec.see("copies-other-ws")
            src = ws.get_entity(uuid.UUID(op["target"]))[0]
            new = eng.ws2.get_entity(uuid.UUID(op["uid"]))[0]
            if src is not None:
                judge_cross_copy(rec, src, new, set(self.uids2) | ({op["precopied"]} if op.get("precopied") else set()), "copy_out")
        # ---- global uniqueness, look-ups, shared types
        ents = all_entities(ws)
        seen = {}
        for k, e in ents:
            seen.setdefault(str(e.uid), []).append((k, e))
        for u, lst in seen.items():
            rec.evals["C06.unique"] += 1
            if len(lst) > 1:
                rec.fail("C06.dup-live", op=kind, cls="/".join(sorted({type(e).__name__ for _, e in lst})), attr="", detail=f"uid {u} owned by {[(k, type(e).__name__, e.name) for k, e in lst]}", counted=True)
        tree = {}
        stack = [ws.root]
        while stack:
            e = stack.pop()
            if snap._is_pg(e):
                continue
            if str(e.uid) in tree and tree[str(e.uid)] is not e:
                rec.fail("C06.dup-live", op=kind, cls=f"{type(tree[str(e.uid)]).__name__}/{type(e).__name__}", attr="tree", detail=f"uid {e.uid} occurs twice in the tree")
            tree[str(e.uid)] = e
            stack.extend(getattr(e, "children", None) or [])
        for u, e in tree.items():
            if e is ws.root:
                continue
            got = ws.get_entity(uuid.UUID(u))
            rec.check("C06.lookup", len(got) == 1 and got[0] is e, op=kind, cls=type(e).__name__, attr="by-uid", detail=f"get_entity({u}) returned {[type(g).__name__ for g in got]} instead of its owner {type(e).__name__} {e.name!r}")
        types = ws.types
        tu = {}
        for t in types:
            tu.setdefault(str(t.uid), []).append(t)
        for u, lst in tu.items():
            rec.check("C06.type-unique", len(lst) == 1, op=kind, cls=type(lst[0]).__name__, attr="", detail=f"{len(lst)} live types share uid {u}")
        bycls = {}
        for u, e in tree.items():
            if hist.kind_of(e) in ("object", "group") and e is not ws.root:
                bycls.setdefault(type(e).__name__, set()).add(str(e.entity_type.uid))
        for cname, tset in bycls.items():
            rec.check("C06.type-shared", len(tset) == 1, op=kind, cls=cname, attr="", detail=f"entities of class {cname} use {len(tset)} different types {sorted(tset)}")
        if len(tree) >= 3 and kind in ("copy", "copy_out", "dup_uid", "copy_back", "recreate"):
            rec.nontrivial = True

    def at_close(self, eng, path, live, final):
        raw = snap.raw_snapshot(path)
        seen = {}
        for p in raw["nodes"]:
            seen.setdefault(p.split("/", 1)[1].lower(), []).append(p)
        for u, ps in seen.items():
            # a node that a removal through the parent left in the flat container (C02 known finding) shadows a later re-use of its uid
            stale = "stale-node-of-parent-removal" if any(q in eng.parent_removed for q in ps) else ""
            eng.rec.check("C06.dup-file", len(ps) == 1, op="close", cls="/".join(sorted(x.split("/")[0] for x in ps)), attr=stale, detail=f"uid {u} stored as {ps}")


def run_recreate_script(case, rec):
    """An identifier is owned by one kind of entity, freed by a removal, and given to an entity of the same or another kind,
    with NO workspace listing read in between (listings prune dead registry entries and would hide a stale one)."""
    import os
    import shutil
    import tempfile

    from geoh5py.groups import ContainerGroup
    from geoh5py.objects import Points
    from geoh5py.workspace import Workspace

    from ..core import exc_origin

    d = tempfile.mkdtemp(prefix="gvm_")
    path = os.path.join(d, "w.geoh5")
    where = f"recreate:{case['old']}->{case['new']}:{case['via']}"
    uid = uuid.uuid4()

    def make(ws, kind, name, host):
        if kind == "group":
            return ContainerGroup.create(ws, name=name, uid=uid)
        if kind == "object":
            return Points.create(ws, name=name, vertices=np.zeros((3, 3)), uid=uid)
        return host.add_data({name: {"values": np.arange(4.0), "uid": uid}})

    try:
        ws = Workspace.create(path)
        host = Points.create(ws, name="host", vertices=np.zeros((4, 3)))
        old = make(ws, case["old"], "old owner", host)
        rec.check("C06.reuse-free-uid", old is not None and old.uid == uid, op=where, cls=case["old"], attr="first-owner", detail=f"asked for uid {uid}, got {getattr(old, 'uid', None)}")
        if case["stored"]:
            del old, host
            ws.close()
            ws = Workspace(path, mode="r+")
            host = ws.get_entity("host")[0]
            old = ws.get_entity(uid)[0]
        if case["via"] == "workspace":
            ws.remove_entity(old)
        else:
            old.parent.remove_children([old])
        del old
        if case["collect"]:
            gc.collect()
        rec.see("reuse-after-removal")
        rec.see("recreate-without-listing-read")
        try:
            new = make(ws, case["new"], "new owner", host)
        except Exception as exc:  # noqa: BLE001
            if not exc_origin(exc)[0]:
                raise
            # without a collection the removed entity may still be alive through reference cycles: a refusal is then legitimate
            rec.check("C06.reuse-free-uid", not case["collect"], op=where, cls=case["new"], attr="refused-after-collection", detail=f"re-using the freed uid was refused: {type(exc).__name__}: {exc}")
            return
        rec.check("C06.reuse-free-uid", new is not None and new.uid == uid, op=where, cls=case["new"], attr="uid", detail=f"asked for the freed uid {uid}, got {getattr(new, 'uid', None)}")
        found = ws.get_entity(uid)
        rec.check("C06.lookup", len(found) == 1 and found[0] is new, op=where, cls=case["new"], attr="by-uid", detail=f"look-up of the identifier returned {[type(x).__name__ for x in found]} instead of its one live owner")
        byname = [e for e in ws.get_entity("new owner") if e is not None]
        rec.check("C06.lookup", byname == [new], op=where, cls=case["new"], attr="by-name", detail=f"look-up by name returned {[type(x).__name__ for x in byname]}")
        try:
            dup = make(ws, rng_choice(case), "intruder", host)
            rec.check("C06.dup-accepted", dup is None or dup.uid != uid, op=where, cls=case["new"], attr="second-owner", detail="a second live entity was created with an identifier that has a live owner")
        except Exception as exc:  # noqa: BLE001
            if not exc_origin(exc)[0]:
                raise
            rec.see("refused-duplicates")
        owners = [e for k in ("groups", "objects", "data") for e in getattr(ws, k) if e.uid == uid]
        rec.check("C06.unique", len(owners) == 1 and owners[0] is new, op=where, cls=case["new"], attr="listing", detail=f"{len(owners)} live entities carry the identifier")
        if case["new"] != "data":
            cp = new.copy()
            rec.check("C06.copy-same-ws-uid", cp.uid != uid, op=where, cls=case["new"], attr="", detail="copy inside the same workspace kept the source's identifier")
        ws.close()
        raw = snap.raw_snapshot(path)
        paths = [p for p in raw["nodes"] if str(uid) in p]
        stale = "stale-node-of-parent-removal" if case["via"] == "parent" and len(paths) > 1 else ""
        rec.check("C06.dup-file", len(paths) == 1, op="close", cls="/".join(sorted(x.split("/")[0] for x in paths)), attr=stale, detail=f"uid {uid} stored as {paths}")
        with Workspace(path, mode="r") as fresh:
            got = fresh.get_entity(uid)
            rec.check("C06.lookup", len(got) == 1 and got[0] is not None and got[0].name == "new owner", op=where + ":reopen", cls=case["new"], attr="stale-node-of-parent-removal" if case["via"] == "parent" else "by-uid", detail=f"after re-open the identifier resolves to {[(type(x).__name__, getattr(x, 'name', None)) for x in got]}")
        rec.nontrivial = True
        rec.shape = ["recreate-script", case["old"], case["new"], case["via"], case["collect"], case["stored"]]
        rec.sample = {"profile": "recreate-script", "old": case["old"], "new": case["new"], "via": case["via"]}
    finally:
        try:
            ws.close()
        except Exception:  # noqa: BLE001
            pass
        shutil.rmtree(d, ignore_errors=True)
        gc.collect()


def run_type_script(case, rec):
    """An explicit request to give a new type the identifier of a live type is refused without side effects, and the entities of
    one class keep sharing one type afterwards."""
    import os
    import shutil
    import tempfile

    from geoh5py.groups import ContainerGroup
    from geoh5py.objects import Points
    from geoh5py.workspace import Workspace

    from ..core import exc_origin

    d = tempfile.mkdtemp(prefix="gvm_")
    path = os.path.join(d, "w.geoh5")
    where = "type-uid-reuse:" + case["as"]
    try:
        ws = Workspace.create(path)
        first = Points.create(ws, vertices=np.zeros((4, 3)), name="first")
        grp = ContainerGroup.create(ws, name="grp")
        base = first.add_data({"base": {"values": np.arange(4.0)}})
        if case["stored"]:
            del first, grp, base
            ws.close()
            ws = Workspace(path, mode="r+")
            first, grp, base = ws.get_entity("first")[0], ws.get_entity("grp")[0], ws.get_entity("base")[0]
        owner = {"data-type-with-object-type-uid": first.entity_type, "data-type-with-group-type-uid": grp.entity_type, "second-data-type-same-uid": base.entity_type}[case["as"]]
        prim = "FLOAT" if case["as"] != "second-data-type-same-uid" else "TEXT"
        n_data = len(first.children)
        refused = False
        try:
            first.add_data({"reuse": {"values": np.arange(4.0) if prim == "FLOAT" else "text", "entity_type": {"uid": owner.uid, "primitive_type": prim, "name": "intruder type"}, **({"association": "OBJECT"} if prim == "TEXT" else {})}})
        except Exception as exc:  # noqa: BLE001
            if not exc_origin(exc)[0]:
                raise
            refused = True
            rec.see("refused-duplicates")
        rec.see("reuse-requests:type")
        kids = [c for c in first.children if hasattr(c, "values")]
        if refused:
            rec.check("C06.refusal-side-effect", len(first.children) == n_data, op=where, cls="Points", attr="api", detail=f"the refused request left {len(first.children) - n_data} extra child(ren) on the object")
        second = Points.create(ws, vertices=np.zeros((3, 3)), name="second")
        live = {}
        for e in list(ws.groups) + list(ws.objects) + list(ws.data):
            live.setdefault(str(e.entity_type.uid), set()).add(id(e.entity_type))
        for t in ws.types:
            live.setdefault(str(t.uid), set()).add(id(t))
        clash = {u: len(v) for u, v in live.items() if len(v) > 1}
        rec.check("C06.unique", not clash, op=where, cls="types", attr="type-uid", detail=f"several live type objects share an identifier: {clash} (request refused: {refused})")
        rec.check("C06.type-shared", second.entity_type is first.entity_type, op=where, cls="Points", attr="", detail="two Points of one workspace no longer share a single type object")
        found = ws.find_type(owner.uid, type(owner))
        rec.check("C06.lookup", found is owner, op=where, cls=type(owner).__name__, attr="find_type", detail=f"find_type of the owner's identifier returns {found}")
        _ = kids
        ws.close()
        raw = snap.raw_snapshot(path)
        paths = [p for p in raw["types"] if str(owner.uid) in p] if "types" in raw else []
        rec.check("C06.dup-file", len(paths) <= 1, op="close", cls="types", attr="", detail=f"type identifier stored under {paths}")
        rec.nontrivial = True
        rec.shape = ["type-script", case["as"], case["stored"]]
        rec.sample = {"profile": "type-script", "as": case["as"]}
    finally:
        try:
            ws.close()
        except Exception:  # noqa: BLE001
            pass
        shutil.rmtree(d, ignore_errors=True)
        gc.collect()


def run_copyback_script(case, rec):
    """Copy an object (with a property group) to another workspace, remove the original, and copy it back -- with no listing
    read in between: every identifier is free again in the first workspace and must be kept."""
    import os
    import shutil
    import tempfile

    from geoh5py.objects import Points
    from geoh5py.workspace import Workspace

    d = tempfile.mkdtemp(prefix="gvm_")
    pa, pb = os.path.join(d, "a.geoh5"), os.path.join(d, "b.geoh5")
    where = f"copy-back:{case['via']}:{'collected' if case['collect'] else 'uncollected'}"
    try:
        wa, wb = Workspace.create(pa), Workspace.create(pb)
        src = Points.create(wa, vertices=np.zeros((4, 3)), name="traveller")
        data = src.add_data({"d1": {"values": np.arange(4.0)}, "d2": {"values": np.arange(4.0) * 2}})
        if case["with_pg"]:
            src.add_data_to_group(data, "pg")
        ids = {"object": str(src.uid), "d1": str(data[0].uid), "d2": str(data[1].uid)}
        if case["with_pg"]:
            ids["pg"] = str(src.property_groups[0].uid)
        there = src.copy(parent=wb)
        for k, u in ids.items():
            got = str(there.uid) if k == "object" else (str(there.property_groups[0].uid) if k == "pg" else str(there.get_data(k)[0].uid))
            rec.check("C06.copy-other-ws-uid" if k != "pg" else "C06.pg-uid", got == u, op=where + ":out", cls=k, attr="uid", detail=f"{k} identifier {u} was free in the empty target but the copy got {got}")
        rec.see("copies-other-ws")
        if case["via"] == "workspace":
            wa.remove_entity(src)
        else:
            src.parent.remove_children([src])
        del src, data
        if case["collect"]:
            gc.collect()
        rec.see("recreate-without-listing-read")
        back = there.copy(parent=wa)
        undecided = not case["collect"] or case["via"] == "parent"
        for k, u in ids.items():
            got = str(back.uid) if k == "object" else (str(back.property_groups[0].uid) if k == "pg" else str(back.get_data(k)[0].uid))
            if undecided:
                rec.see("copy-uid-undecided")
                continue
            rec.check("C06.copy-other-ws-uid" if k != "pg" else "C06.pg-uid", got == u, op=where + ":back", cls=k, attr="uid", detail=f"{k} identifier {u} was free again in the first workspace but the copy got {got}")
        owners = [e for kind in ("objects", "data") for e in getattr(wa, kind) if str(e.uid) in ids.values()]
        rec.check("C06.unique", len({str(e.uid) for e in owners}) == len(owners), op=where, cls="Points", attr="listing", detail="two live entities share an identifier after the copy back")
        wa.close()
        wb.close()
        rec.nontrivial = True
        rec.shape = ["copyback-script", case["collect"], case["with_pg"], case["via"]]
        rec.sample = {"profile": "copyback-script", "where": where}
    finally:
        for w in ("wa", "wb"):
            try:
                locals()[w].close()
            except Exception:  # noqa: BLE001
                pass
        shutil.rmtree(d, ignore_errors=True)
        gc.collect()


def rng_choice(case):
    return {"group": "object", "object": "data", "data": "group"}[case["new"]]


def run_refused_then_used(case, rec):
    """A creation under a group is refused because the identifier belongs to an entity elsewhere.  Later the identifier gets
    there legitimately - the owner is removed and an entity is created under the group with the freed identifier, or the owner
    itself is moved into the group: the group then holds it (child list, tree walk, file), like any other child."""
    import tempfile

    from geoh5py.groups import ContainerGroup
    from geoh5py.objects import Points
    from geoh5py.workspace import Workspace

    d = tempfile.mkdtemp(prefix="gvm_c06r_")
    path = os.path.join(d, "r.geoh5")
    where = f"refused-then-{case['how']}"
    ws = None
    try:
        ws = Workspace.create(path)
        group = gen.group_class(case["gclass"]).create(ws, name="campaign")
        other = ContainerGroup.create(ws, name="other")
        owner = Points.create(ws, vertices=np.zeros((3, 3)), name="owner", parent=other)
        uid = owner.uid
        if case["stored"]:
            ws.close()
            ws.open()
            group, other, owner = (ws.get_entity(n)[0] for n in ("campaign", "other", "owner"))
        try:
            Points.create(ws, vertices=np.ones((2, 3)), uid=uid, parent=group, name="intruder")
            rec.fail("C06.reuse-accepted", op=where, cls="Points", attr="same", detail="an identifier in use was accepted")
            return
        except Exception as exc:  # noqa: BLE001
            from ..core import exc_origin

            if not exc_origin(exc)[0]:
                raise
            rec.see("reuse-requests:other")
        rec.check("C06.refusal-side-effect", [c for c in group.children] == [] and ws.get_entity(uid)[0] is owner, op=where, cls=case["gclass"], attr="api", detail=f"after the refusal the group holds {[c.name for c in group.children]}, the identifier resolves to {ws.get_entity(uid)[0]!r}")
        if case["how"] == "recreate":
            ws.remove_entity(owner)
            owner = None
            gc.collect()
            new = Points.create(ws, vertices=np.ones((4, 3)), uid=uid, name="again", parent=group)
            rec.see("reuse-after-removal")
        else:
            owner.parent = group
            new, owner = owner, None
        rec.check("C06.lookup", ws.get_entity(uid)[0] is new, op=where, cls="Points", attr="by-uid", detail=f"the identifier resolves to {ws.get_entity(uid)[0]!r}")
        rec.check("C06.unique", new.parent is group and any(c is new for c in group.children), op=where, cls=case["gclass"], attr="child-list", detail=f"the entity says its parent is {new.parent.name!r}; the group's children are {[c.name for c in group.children]}")
        name = new.name
        new = group = other = None
        ws.close()
        with Workspace(path, mode="r") as fresh:
            g2 = fresh.get_entity("campaign")[0]
            rec.check("C06.unique", [c.name for c in g2.children] == [name], op=where + ":reopened", cls=case["gclass"], attr="child-list", detail=f"after re-opening the group holds {[c.name for c in g2.children]}, expected [{name!r}]")
            rec.check("C06.lookup", fresh.get_entity(uid)[0] is not None and fresh.get_entity(uid)[0].name == name, op=where + ":reopened", cls="Points", attr="by-uid", detail="the identifier does not resolve to the entity after re-opening")
        rec.nontrivial = True
        rec.shape = ["refused-then-used", case["how"], case["stored"], case["gclass"]]
        rec.sample = {"profile": "refused-then-used", "how": case["how"]}
    finally:
        try:
            if ws is not None:
                ws.close()
        except Exception:  # noqa: BLE001
            pass
        shutil.rmtree(d, ignore_errors=True)
        gc.collect()


def run_aged_script(case, rec):
    """A long-lived session: entities that have survived collections (so they sit in the collector's old generation) and take
    part in reference cycles (visual parameters know their object, linked surveys know each other) are removed with their
    group.  From the moment the removal returns and the caller lets go of the group -- without any collection of the caller's
    own -- their identifiers are free: look-ups yield nothing, listings do not show them, the identifier can be used again and
    a copy from another workspace keeps its identifiers."""
    import tempfile

    from geoh5py.groups import ContainerGroup
    from geoh5py.objects import Curve, Points
    from geoh5py.workspace import Workspace

    rng = random.Random(case["seed"])
    d = tempfile.mkdtemp(prefix="gvm_c06a_")
    where = f"aged:{case['shape']}:{'nested' if case['nested'] else 'flat'}:{'copy' if case['from_copy'] else 'made'}"
    gc_was = gc.isenabled()
    try:
        src = Workspace.create(os.path.join(d, "src.geoh5"))
        tgt = Workspace.create(os.path.join(d, "tgt.geoh5"))
        home = src if case["from_copy"] else tgt

        def build(ws, parent):
            if case["shape"] == "points":
                o = Points.create(ws, parent=parent, vertices=np.arange(15.0).reshape(5, 3), name="origin")
                o.add_data({"v": {"values": np.arange(5.0)}})
            elif case["shape"] == "curve-pg":
                o = Curve.create(ws, parent=parent, vertices=np.arange(18.0).reshape(6, 3), name="origin")
                a = o.add_data({"a": {"values": np.arange(6.0)}, "b": {"values": np.arange(6.0) + 1}})
                o.add_data_to_group(a, "grp")
            else:
                from . import c20

                pairs = [q for q in c20.discover_pairs() if q[3] not in ("large",)]
                pair = pairs[rng.randrange(len(pairs))]
                rx, tx, extra = c20.build_pair(ws, pair, rng, parent=parent)
                c20.link(pair, rx, tx, "from-receivers", extra)
                o = rx
            if o is not None and hasattr(o, "add_default_visual_parameters"):
                o.add_default_visual_parameters()
            return o

        box = ContainerGroup.create(tgt, name="box")
        inner = ContainerGroup.create(tgt, name="inner", parent=box) if case["nested"] else box
        if case["from_copy"]:
            origin = build(src, src.root)
            if origin is None:
                rec.see("aged-shape-unavailable")
                return
            first = origin.copy(parent=inner)
        else:
            first = build(tgt, inner)
            if first is None:
                rec.see("aged-shape-unavailable")
                return
            origin = None
        wanted = {str(first.uid): type(first).__name__}
        for c in first.children:
            wanted[str(c.uid)] = type(c).__name__
        for sib in inner.children:
            wanted[str(sib.uid)] = type(sib).__name__
            for c in getattr(sib, "children", []) or []:
                wanted[str(c.uid)] = type(c).__name__
        if case["nested"]:
            wanted[str(inner.uid)] = "ContainerGroup"
        first_uid = first.uid
        first = sib = c = inner = None
        for _ in range(case["ages"]):
            gc.collect()
        gc.disable()  # nothing below may depend on when the interpreter would have collected
        tgt.remove_entity(box)
        box = None
        rec.see("aged-removals")
        for u, cname in sorted(wanted.items()):
            found = tgt.get_entity(uuid.UUID(u))[0]
            rec.check("C06.lookup", found is None, op=where, cls=cname, attr="removed-still-resolves", detail=f"right after the removal of its group returned, {u} still resolves to {type(found).__name__} {getattr(found, 'name', None)!r}")
            found = None
        listed = {str(e.uid) for _, e in all_entities(tgt)} & set(wanted)
        rec.check("C06.lookup", not listed, op=where, cls="Workspace", attr="removed-still-listed", detail=f"the listings still show removed entities {sorted(listed)[:3]}")
        try:
            again = Points.create(tgt, vertices=np.zeros((2, 3)), name="again", uid=first_uid)
            rec.check("C06.reuse-free-uid", again.uid == first_uid, op=where, cls="Points", attr="uid", detail="re-creation under the freed identifier got another identifier")
            tgt.remove_entity(again)
            again = None
        except Exception as exc:  # noqa: BLE001
            from ..core import exc_origin

            if not exc_origin(exc)[0]:
                raise
            rec.fail("C06.reuse-free-uid", op=where, cls="Points", attr=type(exc).__name__, detail=f"re-creation under the identifier of a removed entity was refused: {exc}")
        if origin is not None:
            second = origin.copy(parent=tgt.root)
            got = {str(second.uid)} | {str(c.uid) for c in second.children}
            exp = {str(origin.uid)} | {str(c.uid) for c in origin.children}
            if case["shape"] == "survey-pair":
                # a copied survey re-creates its link data (documented re-numbering): the entity itself is what keeps its identifier
                got, exp = {str(second.uid)}, {str(origin.uid)}
            rec.check("C06.copy-other-ws-uid", got == exp, op=where, cls=type(origin).__name__, attr="uid", detail=f"the identifiers are free in the target but the copy did not keep them: {sorted(exp - got)[:3]} missing")
            rec.see("copies-other-ws")
        rec.nontrivial = True
        rec.shape = ["aged-script", case["shape"], case["ages"], case["nested"], case["from_copy"]]
        rec.sample = {"profile": "aged-script", "shape": case["shape"]}
    finally:
        if gc_was:
            gc.enable()
        for w in ("src", "tgt"):
            try:
                locals()[w].close()
            except Exception:  # noqa: BLE001
                pass
        shutil.rmtree(d, ignore_errors=True)
        gc.collect()


def run_case(case, rec):
    if case["kind"] == "aged-script":
        return run_aged_script(case, rec)
    if case["kind"] == "refused-then-used":
        return run_refused_then_used(case, rec)
    if case["kind"] == "recreate-script":
        return run_recreate_script(case, rec)
    if case["kind"] == "type-script":
        return run_type_script(case, rec)
    if case["kind"] == "copyback-script":
        return run_copyback_script(case, rec)
    rng = random.Random(case["seed"])
    eng = C06Engine(rec, rng, PROP, weights=PROFILES[case["profile"]], monitors=[C06Monitor()], gc_plan=case["gc"], ref_policy=case["refs"], n_ops=case["n_ops"], second_ws=True)
    eng.run()
    rec.shape = [case["profile"], [(o["op"], o.get("cls", ""), o.get("collide", "")) for o in eng.log]]
    rec.sample = {"profile": case["profile"], "history": [short({k: v for k, v in o.items() if k != "removed"}, 160) for o in eng.log[:10]]}
    gc.collect()
