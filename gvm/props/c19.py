"""C19 — the reader tolerates missing optional content.

Fault enumeration, exhaustive per seed file: every attribute and every link (child links, Type, Root,
containers incl. empty ones, datasets, PropertyGroups, type datasets, Concatenated Data members)
of a library-written file is deleted once in a scratch copy with plain h5py; the damaged copy is
opened with the library and compared with the intact file.  Three-way table keyed by (container
kind, item): optional (per the format documents), mandatory (identifier, name, Type link, flat
container), unclassified (collateral clause only).  Oracle: optional => opens; every entity not
described by the item (node carrying it, entities of that type, their descendants) has unchanged
content; mandatory => raises, or omits only described entities."""
from __future__ import annotations

import gc
import os
import random
import shutil
import tempfile
import warnings

import h5py
import numpy as np

from .. import gen, snap
from ..core import diff_paths, exc_origin, seed_all, short

PROP = "C19"
LEVEL = "fault_enumeration"
RULE = (
    "case = a chunk of the enumeration of all single deletions (one attribute or one link) of one seed file written by the "
    "library; all items of every seed file are enumerated (exhaustive). Seed files: 'small' (one entity of a dozen classes, "
    "property groups, colour/value maps, comments, files), 'full' (every class), 'drill' (drillhole group with holes). "
    "Non-trivial = the damaged file opened and >= 3 undescribed entities were compared; distinct = (file, item kind, item name)."
)
ASSUMPTIONS = [
    "optional items: Contributors; entity Visible/Public/Clipping IDs/Allow delete/Allow move/Allow rename and Metadata; type Description/Units/Color map/Value map (and the attributes of those map datasets) and display switches; Root; PropertyGroups block; empty child containers",
    "mandatory items: ID, Name, Type link, flat containers; everything else is unclassified (collateral clause only)",
    "the described set of an item is computed structurally from the intact file",
]
OPT_ENTITY_ATTRS = {"Visible", "Public", "Clipping IDs", "Allow delete", "Allow move", "Allow rename", "Partially hidden"}
OPT_TYPE_ATTRS = {"Description", "Units", "Transparent no data", "Hidden", "Scientific notation", "Precision", "Number of bins", "Duplicate type on copy", "Allow move contents", "Allow delete contents", "Duplicate on copy"}
OPT_PROJECT_ATTRS = {"Contributors"}
CHUNK = 30


def floors(tier):
    return {"deletions": 300, "opened-damaged-files": 200, "C19.collateral": 2000, "class:optional": 100, "class:mandatory": 40, "class:unclassified": 60}


def EXHAUSTIVE(tier):
    return "every single deletion of one attribute or one link of each seed file"


def gen_cases(tier, seed):
    files = ["small", "drill"] if tier == "quick" else ["small", "drill", "full"]
    cases = []
    for f in files:
        n = count_items(f)
        for start in range(0, n, CHUNK):
            cases.append({"kind": "deletions", "file": f, "start": start, "stop": min(n, start + CHUNK), "total": n})
    return cases


# ------------------------------------------------------------------------------------------
def build_seed(kind, path):
    """Deterministic seed file (same uuids in every worker)."""
    from geoh5py.data.color_map import ColorMap
    from geoh5py.groups import ContainerGroup, DrillholeGroup
    from geoh5py.objects import Drillhole
    from geoh5py.workspace import Workspace

    seed_all(1234567 + {"small": 1, "full": 2, "drill": 3}[kind])
    rng = random.Random(99)
    ws = Workspace.create(path)
    g = ContainerGroup.create(ws, name="group")
    sub = ContainerGroup.create(ws, name="empty sub", parent=g)
    _ = sub
    if kind in ("small", "full"):
        classes = ["Points", "Curve", "Surface", "Grid2D", "BlockModel", "Octree", "DrapeModel", "Drillhole", "Label"] if kind == "small" else gen.ALL_OBJECTS
        for i, c in enumerate(classes):
            o = gen.build_object(ws, c, parent=g if i % 2 else None, rng=rng, name=f"o{i}_{c}", base=100 * i)
            made = []
            for a in gen.associations_for(o):
                if a == "OBJECT":
                    continue
                for k in ("float", "referenced"):
                    spec, _ = gen.data_spec(o, k, a, rng, tag=i)
                    made.append(o.add_data({f"{k}_{a}_{i}": spec}))
            if len(made) >= 2:
                o.add_data_to_group(made[:2], f"pg{i}")
            if len(made) >= 4:
                o.add_data_to_group(made[2:4], f"pgb{i}")
                o.add_data_to_group([made[0], made[1]], f"pgc{i}")
            if made:
                made[0].entity_type.color_map = ColorMap(values=np.c_[np.linspace(0, 1, 4), np.arange(4) * 10, np.arange(4) * 20, np.arange(4) * 30, np.ones(4) * 255])
                made[0].entity_type.units = "ppm"
                made[0].entity_type.description = "a described type"
            if i % 3 == 0:
                o.add_comment("a comment", author="me")
                o.add_file(b"\x00\x01binary", name="att.bin")
                if c in gen.BASIC_OBJECTS:  # survey classes validate their metadata layout
                    o.metadata = {"k": 1, "who": "me"}
        g.add_comment("group comment", author="me")
        ws.contributors = np.array(["alice", "bob"])
    else:
        dh = DrillholeGroup.create(ws, name="DH", parent=g)
        for i in range(3):
            h = Drillhole.create(ws, parent=dh, name=f"h{i}", collar=[float(i), 0.0, 10.0], surveys=np.array([[0.0, 0.0, -90.0], [20.0, 10.0, -80.0]]))
            h.add_data({"v0": {"depth": np.arange(4.0) + 0.5, "values": np.arange(4.0) + 10 * i}}, property_group="dtab")
            h.add_data({"iv": {"from-to": np.c_[np.arange(3.0), np.arange(3.0) + 1], "values": np.arange(3.0) + 100 * i}}, property_group="itab")
        gen.build_object(ws, "Points", parent=g, rng=rng, name="pts", base=5)
        # ordinary children of the drillhole group itself, and the integrator classes (their constructors complete a type
        # that lacks its description)
        dh.add_comment("remark on the drillhole group", author="me")
        dh.add_file(b"hole,x,y\n", name="collars.csv")
        gen.build_object(ws, "IntegratorPoints", parent=g, rng=rng, name="ipts", base=7)
        gen.build_object(ws, "NeighbourhoodSurface", parent=None, rng=rng, name="nsurf", base=9)
    ws.close()


def enumerate_items(path):
    """All (node path, 'attr'|'link', name) single deletions, in a deterministic order."""
    items = []
    with h5py.File(path, "r") as h5:
        def visit(grp, gpath):
            for a in sorted(grp.attrs):
                items.append((gpath, "attr", a))
            if isinstance(grp, h5py.Group):
                for name in sorted(grp):
                    items.append((gpath, "link", name))
                    link = grp.get(name, getlink=True)
                    if not isinstance(link, h5py.HardLink):
                        continue
                    child = grp[name]
                    # descend only along the canonical location of every node (flat containers, types, inner blocks)
                    inner = gpath.count("/") >= 2 and name in ("Data", "Groups", "Objects", "Type") and not gpath.endswith("Types")
                    if gpath.count("/") == 0 and name == "Root":
                        continue
                    if inner and name != "Type" and isinstance(child, h5py.Group):
                        for sub in sorted(child):
                            items.append((f"{gpath}/{name}", "link", sub))
                        continue
                    if name == "Type" and gpath.count("/") >= 2:
                        continue
                    visit(child, f"{gpath}/{name}")

        base = list(h5)[0]
        visit(h5[base], base)
    return items


_COUNT = {}


def count_items(kind):
    if kind not in _COUNT:
        warnings.simplefilter("ignore")
        d = tempfile.mkdtemp(prefix="gvm_")
        try:
            p = os.path.join(d, "seed.geoh5")
            build_seed(kind, p)
            _COUNT[kind] = len(enumerate_items(p))
        finally:
            shutil.rmtree(d, ignore_errors=True)
    return _COUNT[kind]


# ------------------------------------------------------------------------------------------
def classify(gpath, what, name, raw):
    """-> (class, node kind, described node paths / type ids) for one deletion."""
    parts = gpath.split("/")
    depth = len(parts)
    # project level
    if depth == 1:
        if what == "attr":
            return ("optional" if name in OPT_PROJECT_ATTRS else "unclassified"), "project", {"all": False, "nodes": set(), "types": set()}
        if name == "Root":
            return "optional", "project", {"nodes": {"<root>"}, "types": set()}
        if name in ("Data", "Groups", "Objects"):
            return "mandatory", "project", {"container": name, "nodes": set(), "types": set()}
        return "unclassified", "project", {"container": name, "nodes": set(), "types": set(), "everything": True}
    top = parts[1]
    if top in ("Data", "Groups", "Objects"):
        if depth == 2:
            # a member of a flat container: the entity node itself
            return "unclassified", top, {"nodes": {f"{top}/{name}"}, "types": set()}
        node = f"{top}/{parts[2]}"
        desc = {"nodes": {node}, "types": set()}
        if depth == 3:
            if what == "attr":
                if name in ("ID", "Name"):
                    return "mandatory", top, desc
                if name in OPT_ENTITY_ATTRS:
                    return "optional", top, {"nodes": {node}, "types": set(), "exact": True}
                # any other attribute (counts, origin, rotation, ...) says something about the entity carrying it, not about
                # the entities stored under it
                return "unclassified", top, {"nodes": {node}, "types": set(), "exact": True}
            if name == "Type":
                return "mandatory", top, desc
            if name == "PropertyGroups":
                return "optional", top, desc
            if name in ("Data", "Groups", "Objects") and not (top == "Data" and name == "Data"):
                rec_ = raw["nodes"].get(node, {})
                empty = not (rec_.get("children") or {}).get(name)
                if empty:
                    return "optional", top, {"nodes": set(), "types": set(), "exact": True}  # an empty container describes no entity
                return "unclassified", top, desc
            if name == "Metadata":
                return "optional", top, {"nodes": {node}, "types": set(), "exact": True}
            return "unclassified", top, desc
        if depth >= 5 and parts[3] == "PropertyGroups":
            pg = parts[4].strip("{}").lower()
            pdesc = {"nodes": set(), "types": set(), "pgs": {pg}, "exact": True}
            if what == "attr" and name in ("ID", "Group Name"):
                return "mandatory", "PropertyGroup", pdesc
            return "unclassified", "PropertyGroup", pdesc
        if depth == 4 and parts[3] == "PropertyGroups" and what == "link":
            return "unclassified", "PropertyGroup", {"nodes": set(), "types": set(), "pgs": {name.strip("{}").lower()}, "exact": True}
        if depth == 4 and parts[3] in ("Data", "Groups", "Objects") and what == "link":
            # a child link: describes the child (and its descendants)
            return "unclassified", top, {"nodes": {f"{parts[3]}/{name}"}, "types": set()}
        return "unclassified", top, desc
    if top == "Types":
        if depth == 2:
            return "unclassified", "types", {"nodes": set(), "types": set(), "everything": True}
        if depth == 3:
            return "unclassified", "types", {"nodes": set(), "types": {name.strip("{}").lower()}}
        tid = parts[3].strip("{}").lower()
        desc = {"nodes": set(), "types": {tid}}
        if depth == 5 and parts[4] in ("Color map", "Value map") and what == "attr":
            return "optional", "type", desc  # an attribute of an optional map is no more mandatory than the map
        if what == "attr":
            if name in ("ID", "Name"):
                return "mandatory", "type", desc
            return ("optional" if name in OPT_TYPE_ATTRS else "unclassified"), "type", desc
        if name in ("Color map", "Value map"):
            return "optional", "type", desc
        return "unclassified", "type", desc
    return "unclassified", "other", {"nodes": set(), "types": set(), "everything": True}


def described_uids(desc, intact, raw):
    """uids (API snapshot keys) described by an item: nodes, entities of the types, and all their descendants."""
    if desc.get("everything"):
        return set(intact)
    roots = set()
    for p in desc["nodes"]:
        if p == "<root>":
            roots |= {u for u, r in intact.items() if r.get("parent") is None}
        else:
            roots.add(p.split("/", 1)[1].strip("{}").lower())
    if desc.get("container"):
        kindmap = {"Data": "data", "Groups": "group", "Objects": "object"}
        for path in raw["nodes"]:
            if path.startswith(desc["container"] + "/"):
                roots.add(path.split("/", 1)[1].strip("{}").lower())
        _ = kindmap
    for tid in desc["types"]:
        for u, r in intact.items():
            t = r.get("type")
            if isinstance(t, dict) and str(t.get("uid", "")).lower() == tid:
                roots.add(u)
    if desc.get("exact"):
        return set(roots)
    out = set()
    stack = list(roots)
    while stack:
        u = stack.pop()
        if u in out:
            continue
        out.add(u)
        stack.extend(intact.get(u, {}).get("children") or [])
    return out


def normalise(snapshot, drop, drop_pgs=()):
    """Records of the undescribed entities, with described uids removed from child lists and the root's uid neutralised."""
    roots = {u for u, r in snapshot.items() if r.get("parent") is None}
    out = {}
    for u, r in snapshot.items():
        if u in drop or u in roots:
            continue
        r = dict(r)
        if r.get("parent") in roots:
            r["parent"] = "<root>"
        if "children" in r:
            r["children"] = sorted(c for c in r["children"] if c not in drop)
        if drop_pgs and r.get("pgs"):
            r["pgs"] = [pg for pg in r["pgs"] if pg["uid"].lower() not in drop_pgs]
        out[u] = r
    return out


def run_case(case, rec):
    from geoh5py.workspace import Workspace

    warnings.simplefilter("ignore")
    d = tempfile.mkdtemp(prefix="gvm_")
    try:
        seed = os.path.join(d, "seed.geoh5")
        build_seed(case["file"], seed)
        items = enumerate_items(seed)
        raw = snap.raw_snapshot(seed)
        w0 = Workspace(seed, mode="r")
        intact = {k.lower(): v for k, v in snap.api_snapshot(w0).items()}
        w0.close()
        for rcd in intact.values():
            if rcd.get("parent"):
                rcd["parent"] = rcd["parent"].lower()
            if "children" in rcd:
                rcd["children"] = [c.lower() for c in rcd["children"]]
        shapes = []
        for gpath, what, name in items[case["start"] : case["stop"]]:
            rec.see("deletions")
            cls, nkind, desc = classify(gpath, what, name, raw)
            rec.see("class:" + cls)
            item_name = name if not name.startswith("{") else "<uid>"
            attr = f"{what}:{item_name}"
            shapes.append([cls, nkind, attr])
            work = os.path.join(d, "damaged.geoh5")
            shutil.copy(seed, work)
            with h5py.File(work, "r+") as h5:
                node = h5[gpath]
                if what == "attr":
                    del node.attrs[name]
                else:
                    del node[name]
            drop = described_uids(desc, intact, raw)
            opened, damaged, err, listing_err = False, None, None, None
            ws = None
            try:
                ws = Workspace(work, mode="r")
                damaged = {k.lower(): v for k, v in snap.api_snapshot(ws).items()}
                for rcd in damaged.values():
                    if rcd.get("parent"):
                        rcd["parent"] = rcd["parent"].lower()
                    if "children" in rcd:
                        rcd["children"] = [c.lower() for c in rcd["children"]]
                opened = True
                # an opened workspace is one whose listings can be read (they sweep entities nobody holds any more)
                try:
                    gc.collect()
                    _ = (len(ws.objects), len(ws.groups), len(ws.data), len(ws.types))
                except Exception as exc:  # noqa: BLE001
                    if not exc_origin(exc)[0] and not isinstance(exc, (OSError, KeyError)):
                        raise
                    listing_err = f"{type(exc).__name__}: {str(exc)[:150]}"
            except Exception as exc:  # noqa: BLE001
                if not exc_origin(exc)[0] and not isinstance(exc, (OSError, KeyError)):
                    raise
                err = f"{type(exc).__name__}: {str(exc)[:150]}"
            finally:
                try:
                    if ws is not None:
                        ws.close()
                except Exception:  # noqa: BLE001
                    pass
            where = f"{case['file']}:{nkind}"
            if not opened:
                rec.see("refused-to-open")
                if cls == "optional":
                    rec.fail("C19.optional-raises", op=where, cls=nkind, attr=attr, detail=f"deleting optional {what} {name!r} of {gpath}: {err}")
                else:
                    rec.evals["C19.mandatory-or-unclassified-raises"] += 1
            def judge_opened(damaged, listing_err, tag):
                rec.see("opened-damaged-files" + tag)
                if cls == "optional":
                    rec.check("C19.listing-raises", listing_err is None, op=where + tag, cls=nkind, attr=attr, detail=f"after deleting {what} {name!r} of {gpath} the file opens, but reading the workspace listings raises {listing_err}")
                # getters of undescribed entities that raise in the damaged copy count as altered content
                # a described entity that comes back under another identifier is still the described entity
                gone = {(intact[u]["cls"], intact[u]["attrs"].get("name")) for u in drop if u in intact}
                renamed = {u for u, r in damaged.items() if u not in intact and (r["cls"], r["attrs"].get("name")) in gone}
                stack = list(renamed)
                while stack:
                    u = stack.pop()
                    for c in damaged.get(u, {}).get("children") or []:
                        if c not in renamed and c not in intact:
                            renamed.add(c)
                            stack.append(c)
                if renamed:
                    rec.see("described-entity-under-new-uid")
                pgs = set(desc.get("pgs") or ())
                if pgs:
                    # a described property group that comes back under another identifier is still the described one
                    names = {pg["name"] for r in intact.values() for pg in r.get("pgs", []) if pg["uid"].lower() in pgs}
                    known = {pg["uid"].lower() for r in intact.values() for pg in r.get("pgs", [])}
                    pgs |= {pg["uid"].lower() for r in damaged.values() for pg in r.get("pgs", []) if pg["uid"].lower() not in known and pg["name"] in names}
                a, b = normalise(intact, drop | renamed, pgs), normalise(damaged, drop | renamed, pgs)
                lost = sorted(set(a) - set(b))
                extra = sorted(set(b) - set(a))
                clause = "C19.mandatory-leak" if cls == "mandatory" else "C19.collateral"
                rec.evals[clause] += max(len(a), 1)
                if lost:
                    rec.fail(clause, op=where + tag, cls=nkind, attr=attr + ":lost", detail=f"deleting {what} {name!r} of {gpath} lost {len(lost)} entities it does not describe, e.g. {[a[u]['cls'] + ':' + str(a[u]['attrs'].get('name')) for u in lost[:3]]}", counted=True)
                if extra:
                    # the same content under another identifier is altered content too
                    rec.fail(clause, op=where + tag, cls=nkind, attr=attr + ":extra", detail=f"deleting {what} {name!r} of {gpath} produced {len(extra)} entities unknown to the intact file, e.g. {[b[u]['cls'] + ':' + str(b[u]['attrs'].get('name')) for u in extra[:3]]}", counted=True)
                changed = None
                for u in sorted(set(a) & set(b)):
                    if a[u] != b[u]:
                        dd = diff_paths(a[u], b[u], limit=2)
                        changed = (u, a[u]["cls"], dd)
                        break
                if changed:
                    fld = changed[2][0][0].strip("/").split("/")[0] if changed[2] else ""
                    rec.fail(clause, op=where + tag, cls=nkind, attr=attr + ":altered:" + fld, detail=f"deleting {what} {name!r} of {gpath} altered {changed[1]} {changed[0]} which it does not describe: {short(changed[2], 300)}", counted=True)
                return len(a)

            n_a = judge_opened(damaged, listing_err, "") if opened else 0
            if cls != "optional":
                # the same damaged file through the default (writable) open: a reader that repairs what it finds must not
                # touch what the missing item does not describe either
                shutil.copy(seed, work)
                with h5py.File(work, "r+") as h5:
                    node = h5[gpath]
                    if what == "attr":
                        del node.attrs[name]
                    else:
                        del node[name]
                ws = None
                damaged_rw = None
                try:
                    ws = Workspace(work)
                    damaged_rw = {k.lower(): v for k, v in snap.api_snapshot(ws).items()}
                    for rcd in damaged_rw.values():
                        if rcd.get("parent"):
                            rcd["parent"] = rcd["parent"].lower()
                        if "children" in rcd:
                            rcd["children"] = [c.lower() for c in rcd["children"]]
                except Exception as exc:  # noqa: BLE001
                    if not exc_origin(exc)[0] and not isinstance(exc, (OSError, KeyError)):
                        raise
                    damaged_rw = None
                    rec.see("refused-to-open:r+")
                finally:
                    try:
                        if ws is not None:
                            ws.close()
                    except Exception:  # noqa: BLE001
                        pass
                if damaged_rw is not None:
                    judge_opened(damaged_rw, None, ":r+")
            a = [None] * n_a
            if len(a) >= 3:
                rec.nontrivial = True
        rec.shape = [case["file"], shapes]
        rec.sample = {"file": case["file"], "items": [list(x) for x in items[case["start"] : case["start"] + 4]]}
    finally:
        shutil.rmtree(d, ignore_errors=True)
        gc.collect()
