"""C11 — closing always leaves a complete file and a released handle.

Crash-point enumeration: for every generated history of n operations, *every* k in 0..n is used as
the point at which a Python exception escapes the with-block (or the helper's block), besides
normal exits, explicit and double closes, helper mode flips and save_as.  After the close:
HDF5 open-object count back to the baseline, the file passes the layout validator, a fresh
Workspace shows exactly the prefix ops[0:k] (differential against the live snapshot taken before
the abort, and against the reference model), every getter of previously obtained entities either
returns what an open twin returns or raises Geoh5FileClosedError, and re-opening restores access."""
from __future__ import annotations

import gc
import os
import shutil
import random

import h5py
import numpy as np

from .. import hist, snap
from ..core import canon, short

PROP = "C11"
LEVEL = "fault_enumeration"
RULE = (
    "case = (history seed, abort point k, close variant); for each history all k in 0..n are enumerated (exhaustive in k). "
    "Variants: exception escaping `with Workspace`, normal with-exit, explicit close + double close, exception escaping "
    "fetch_active_workspace(ws, 'r+') entered from a closed or read-only workspace, normal helper exit, save_as. "
    "Non-trivial = k >= 1 and >= 2 entities; distinct = distinct (variant, op-kind prefix)."
)
ASSUMPTIONS = [
    "process kills / power loss are out of scope (property text); faults are Python exceptions between two operations",
    "post-close getters are compared with an open twin (fresh Workspace on the closed file)",
]
VARIANTS = ["with-abort", "with-normal", "explicit-double", "helper-abort-closed", "helper-abort-readonly", "helper-normal", "save-as"]


def floors(tier):
    return {"aborts": 100, "C11.handle-leak": 200, "C11.completed-op-missing": 1000, "C11.after-close-access": 2000, "C11.reopen-restores": 150, "variant:helper-abort-closed": 15, "variant:helper-abort-readonly": 15, "variant:save-as": 10, "variant:concat:with-abort": 10, "variant:concat:helper-abort-closed": 10, "concat-op:data-flag": 12, "root-entry-deleted": 10, "deferred:object": 5, "deferred:data": 5, "deferred:group-and-child": 5}


def EXHAUSTIVE(tier):
    return "every abort point k in 0..n of every generated history"


def gen_cases(tier, seed):
    nh = 40 if tier == "quick" else 400
    cases = []
    for h in range(nh):
        n = [6, 9, 12][h % 3] if tier == "quick" else [8, 14, 22][h % 3]
        hseed = (seed * 1000003 + h * 7919 + 11) & 0xFFFFFFFF
        for k in range(n + 1):
            cases.append({"kind": "abort", "hseed": hseed, "k": k, "n": n, "variant": VARIANTS[(h + k) % len(VARIANTS)] if k % 2 else "with-abort", "gc": ["default", "seeded"][h % 2], "refs": ["strong", "refetch"][(h // 2) % 2]})
    # sessions on a stored drillhole group (concatenated storage defers part of its writing to close())
    i = 0
    for variant in ["with-abort", "with-normal", "explicit", "helper-abort-closed", "helper-normal"]:
        for op in CONCAT_OPS:
            for extra in ([0, 1] if tier == "quick" else [0, 1, 2, 2]):
                cases.append({"kind": "concat", "variant": variant, "op": op, "extra": extra, "version": [2.0, 2.1][i % 2]})
                i += 1
    # writes the library defers to close(): entities created with save_on_creation=False, and a root rebuilt in memory
    for variant in ["with-abort", "with-normal", "explicit", "helper-abort-closed", "helper-normal"]:
        for scen in DEFERRED:
            for extra in ([0, 1] if tier == "quick" else [0, 1, 2, 3]):
                cases.append({"kind": "deferred", "variant": variant, "scenario": scen, "extra": extra})
    # a workspace whose default (r+) open fell back to read-only because another reader of this process holds the file
    for variant in ["with-normal", "with-abort", "explicit", "helper-normal"]:
        for extra in ([0, 1] if tier == "quick" else [0, 1, 2, 3]):
            cases.append({"kind": "fallback", "variant": variant, "extra": extra})
    return cases


DEFERRED = ["object", "group-and-child", "data", "rootless", "rootless-nested"]
CONCAT_OPS = ["data-flag", "hole-flag", "data-values", "data-rename", "hole-rename", "add-to-table", "new-table", "remove-data", "hole-collar", "pg-only-flags"]


def run_concat(case, rec):
    """One open ... close session on an already stored drillhole group: the session's only modifications are `op` (and
    `extra` further ops); the close happens through `variant`; a fresh reader must then see every completed operation."""
    import os
    import shutil
    import tempfile
    import warnings

    import numpy as np
    from geoh5py.groups import DrillholeGroup
    from geoh5py.objects import Drillhole
    from geoh5py.shared.utils import fetch_active_workspace
    from geoh5py.workspace import Workspace

    warnings.simplefilter("ignore")
    rng = random.Random(case["seed"])
    variant = case["variant"]
    rec.see("variant:concat:" + variant)
    d = tempfile.mkdtemp(prefix="gvm_")
    path = os.path.join(d, f"dh_{os.getpid()}.geoh5")
    baseline = open_objects()
    try:
        ws = Workspace.create(path, version=case["version"])
        nested = (case["extra"] + len(case["op"]) + len(variant)) % 2 == 1
        if nested:
            from geoh5py.groups import ContainerGroup

            grp = DrillholeGroup.create(ws, name="DH", parent=ContainerGroup.create(ws, name="campaign"))
            rec.see("drillhole-groups-nested-in-a-container")
        else:
            grp = DrillholeGroup.create(ws, name="DH")
        for i in range(3):
            h = Drillhole.create(ws, parent=grp, name=f"h{i}", collar=[float(i), 0.0, 10.0], surveys=np.array([[0.0, 0.0, -90.0], [50.0, 10.0, -80.0]]))
            h.add_data({"Au": {"depth": np.arange(4.0) + 0.5, "values": np.arange(4.0) + 10 * i}, "Cu": {"depth": np.arange(4.0) + 0.5, "values": np.arange(4.0) + 100 * i}}, property_group="assay")
        del h, grp
        ws.close()
        ws = Workspace(path, mode="r+")
        ws.close()
        expect = []  # (description, reader -> value, expected)

        def hole(w, name):
            return [c for c in w.get_entity("DH")[0].children if c.name == name][0]

        def do(op, w, j):
            hname = f"h{j % 3}"
            h = hole(w, hname)
            if op == "data-flag" or op == "pg-only-flags":
                flag = ["allow_delete", "allow_move", "allow_rename", "public", "partially_hidden", "visible"][(j + case["extra"]) % 6]
                dd = h.get_data("Au")[0]
                new = not getattr(dd, flag)
                setattr(dd, flag, new)
                expect.append((f"{hname}.Au.{flag}", lambda r, hn=hname, f=flag: getattr(hole(r, hn).get_data("Au")[0], f), new))
            elif op == "hole-flag":
                flag = ["allow_delete", "allow_move", "allow_rename", "public", "visible"][j % 5]
                new = not getattr(h, flag)
                setattr(h, flag, new)
                expect.append((f"{hname}.{flag}", lambda r, hn=hname, f=flag: getattr(hole(r, hn), f), new))
            elif op == "data-values":
                vals = np.arange(4.0) + 1000 + j
                h.get_data("Cu")[0].values = vals
                expect.append((f"{hname}.Cu.values", lambda r, hn=hname: hole(r, hn).get_data("Cu")[0].values.tolist(), vals.tolist()))
            elif op == "data-rename":
                dd = h.get_data("Cu")[0]
                keep = dd.values.tolist()
                dd.name = f"Cu_renamed{j}"
                expect.append((f"{hname}.Cu renamed", lambda r, hn=hname, n=f"Cu_renamed{j}": (hole(r, hn).get_data(n)[0].values.tolist() if hole(r, hn).get_data(n)[0] is not None else None), keep))
            elif op == "hole-rename":
                uid = h.uid
                h.name = f"renamed{j}"
                expect.append((f"{hname} renamed", lambda r, u=uid: r.get_entity(u)[0].name, f"renamed{j}"))
            elif op == "add-to-table":
                vals = np.arange(4.0) + 2000 + j
                h.add_data({f"Zn{j}": {"values": vals}}, property_group="assay")
                expect.append((f"{hname}.Zn{j}", lambda r, hn=hname, n=f"Zn{j}": hole(r, hn).get_data(n)[0].values.tolist(), vals.tolist()))
            elif op == "new-table":
                vals = np.arange(3.0) + 3000 + j
                h.add_data({f"Lith{j}": {"from-to": np.c_[np.arange(3.0) + 100 * (j + 1), np.arange(3.0) + 100 * (j + 1) + 0.5], "values": vals}}, property_group=f"lith{j}")
                expect.append((f"{hname}.Lith{j}", lambda r, hn=hname, n=f"Lith{j}": hole(r, hn).get_data(n)[0].values.tolist(), vals.tolist()))
            elif op == "remove-data":
                w.remove_entity(h.get_data("Au")[0])
                expect.append((f"{hname}.Au removed", lambda r, hn=hname: "Au" in hole(r, hn).get_data_list(), False))
            elif op == "hole-collar":
                h.collar = [5.0 + j, 6.0, 7.0]
                expect.append((f"{hname}.collar", lambda r, hn=hname: [float(x) for x in hole(r, hn).collar.tolist()], [5.0 + j, 6.0, 7.0]))

        held = []

        def session(w):
            # every operation of the session works on its own hole (three holes), so the expectations stay independent
            ops = [case["op"]] + [rng.choice(CONCAT_OPS[:-1]) for _ in range(min(case["extra"], 2))]
            if case["op"] == "pg-only-flags":
                ops = ["data-flag"] * (1 + min(case["extra"], 2))
            for j, op in enumerate(ops):
                do(op, w, j)
                rec.see("concat-op:" + op)
            # what the user still holds when the block ends
            for nm in ("h0", "h1", "h2"):
                hs = [x for x in w.get_entity(nm) if x is not None]
                if hs:
                    held.append(hs[0])
                    kids = [c for c in hs[0].children if hasattr(c, "values")]
                    if kids:
                        held.append(kids[0])

        try:
            if variant in ("with-abort", "with-normal"):
                try:
                    with ws.open(mode="r+"):
                        session(ws)
                        if variant == "with-abort":
                            rec.see("aborts")
                            raise Abort()
                except Abort:
                    pass
            elif variant == "explicit":
                ws.open(mode="r+")
                session(ws)
                ws.close()
            else:
                try:
                    with fetch_active_workspace(ws, mode="r+") as w:
                        session(w)
                        if variant == "helper-abort-closed":
                            rec.see("aborts")
                            raise Abort()
                except Abort:
                    pass
        except Exception as exc:  # noqa: BLE001
            from ..core import exc_origin

            if isinstance(exc, Abort) or not exc_origin(exc)[0]:
                raise
            rec.fail("C11.op-raises", op="concat:" + case["op"], cls=type(exc).__name__, attr="", detail=f"session op raised {type(exc).__name__}: {str(exc)[:200]}")
            return
        closed = not bool(ws._geoh5)  # noqa: SLF001
        rec.check("C11.not-closed", closed, op="concat:" + variant, cls="Workspace", attr="", detail="workspace still open after the block ended")
        gc.collect()
        rec.check("C11.handle-leak", open_objects() == baseline, op="concat:" + variant, cls="Workspace", attr="", detail=f"{open_objects() - baseline} HDF5 objects still open after close")
        try:
            reader = Workspace(path, mode="r")
        except Exception as exc:  # noqa: BLE001
            rec.fail("C11.invalid-file", op="concat:" + variant, cls="file", attr="unreadable", detail=f"{type(exc).__name__}: {exc}")
            return
        writes_after_close(rec, held, "concat:" + variant)
        old_hole = next((h for h in held if hasattr(h, "surveys")), None)
        del held
        try:
            for what, get, exp in expect:
                try:
                    got = get(reader)
                except Exception as exc:  # noqa: BLE001
                    got = f"<raises {type(exc).__name__}: {str(exc)[:80]}>"
                rec.check("C11.completed-op-missing", got == exp, op="concat:" + variant, cls=case["op"] if len(expect) == 1 else "several", attr=what.split(".")[-1].split(" ")[-1], detail=f"{what}: completed before the close as {short(exp)}, a fresh reader sees {short(got)}")
        finally:
            reader.close()
        if old_hole is not None and case["extra"] == 0:
            # the workspace is opened again and a hole obtained before the close is used: what is done through it counts
            try:
                ws.open(mode="r+")
                old_hole.cost = 4321.0
                uid_old = old_hole.uid
                old_hole = None
                ws.close()
                with Workspace(path, mode="r") as r2:
                    got = r2.get_entity(uid_old)[0]
                    rec.check("C11.completed-op-missing", got is not None and got.cost == 4321.0, op="concat:" + variant + ":old-handle-after-reopen", cls="ConcatenatedDrillhole", attr="cost", detail=f"cost set to 4321.0 through a hole obtained before the close (workspace re-opened in between); a fresh reader sees {None if got is None else got.cost}")
                rec.see("edits-through-concatenated-handles-from-before-the-close")
            except Exception as exc:  # noqa: BLE001
                from ..core import exc_origin

                if not exc_origin(exc)[0]:
                    raise
                rec.see("old-concatenated-handle-edit-refused:" + type(exc).__name__)
        old_hole = None
        rec.nontrivial = len(expect) >= 1
        rec.shape = ["concat", variant, case["op"], case["extra"], case["version"], nested]
        rec.sample = {"variant": "concat:" + variant, "ops": [e[0] for e in expect]}
    finally:
        try:
            ws.close()
        except Exception:  # noqa: BLE001
            pass
        shutil.rmtree(d, ignore_errors=True)
        gc.collect()


class Abort(Exception):
    pass


def writes_after_close(rec, held, where):
    """Assignments through entities obtained before the close need the file: the dedicated error, never a silent success
    (the value would sit in memory only and be gone after the next open)."""
    from geoh5py.shared.exceptions import Geoh5FileClosedError

    for ent in held:
        ent = ent[1] if isinstance(ent, tuple) else ent
        probes = [("name", lambda e=ent: setattr(e, "name", "assigned after close")), ("visible", lambda e=ent: setattr(e, "visible", not e.visible))]
        if hasattr(type(ent), "collar") and getattr(ent, "_collar", None) is not None:
            probes.append(("collar", lambda e=ent: setattr(e, "collar", [1.0, 2.0, 3.0])))
        if isinstance(getattr(ent, "_values", None), np.ndarray) and ent._values.dtype.kind == "f":  # noqa: SLF001 - cached values only: the getter itself needs the file
            probes.append(("values", lambda e=ent: setattr(e, "values", np.asarray(e._values) + 1.0)))  # noqa: SLF001
        for attr, fn in probes:
            rec.evals["C11.after-close-access"] += 1
            try:
                fn()
            except Geoh5FileClosedError:
                continue
            except Exception as exc:  # noqa: BLE001
                from ..core import exc_origin

                if not exc_origin(exc)[0]:
                    raise
                rec.fail("C11.wrong-error", op=where, cls=type(ent).__name__, attr="set:" + attr, detail=f"assigning {attr} on a closed workspace raised {type(exc).__name__}: {str(exc)[:120]} instead of Geoh5FileClosedError", counted=True)
                continue
            rec.fail("C11.stale-after-close", op=where, cls=type(ent).__name__, attr="set:" + attr, detail=f"assigning {attr} through an entity of a closed workspace returned without an error", counted=True)


def run_deferred(case, rec):
    """Operations whose write the library itself postpones to the close: an entity created through the documented
    `Workspace.create_entity(..., save_on_creation=False)` next to entities that are stored already, and new entities under a
    root that `Workspace` rebuilt in memory because the file has no Root entry.  What the session showed before the close is what
    a fresh reader of the closed file gets."""
    import tempfile

    import h5py

    from geoh5py.groups import ContainerGroup
    from geoh5py.objects import Curve, Points
    from geoh5py.shared.utils import fetch_active_workspace
    from geoh5py.workspace import Workspace

    rng = random.Random(case["seed"])
    variant, scen = case["variant"], case["scenario"]
    rec.see("variant:deferred:" + variant)
    rec.see("deferred:" + scen)
    d = tempfile.mkdtemp(prefix="gvm_c11d_")
    path = os.path.join(d, f"w{os.getpid()}.geoh5")
    baseline = open_objects()
    xyz = np.array([[float(i), float(i * i % 5), float(rng.randint(0, 4))] for i in range(rng.randint(3, 7))])
    try:
        ws = Workspace.create(path)
        grp = ContainerGroup.create(ws, name="stored group")
        first = Points.create(ws, name="stored first", vertices=xyz, parent=grp if case["extra"] % 2 else None)
        first.add_data({"d0": {"values": np.arange(len(xyz), dtype=float)}})
        for k in range(case["extra"]):
            Curve.create(ws, name=f"stored {k}", vertices=xyz + k)
        root_uid = ws.root.uid
        ws.close()
        if scen.startswith("rootless"):
            # a project file without its Root entry (written by other tools, or partially copied): the library rebuilds the tree
            with h5py.File(path, "r+") as h5:
                top = h5[list(h5)[0]]
                del top["Root"]
                del top["Groups"]["{" + str(root_uid) + "}"]
            rec.see("root-entry-deleted")

        def work(w):
            if scen == "object":
                parent = w.get_entity("stored group")[0] if rng.random() < 0.5 else None
                w.create_entity(Points, save_on_creation=False, entity={"name": "deferred", "vertices": xyz + 10, **({"parent": parent} if parent is not None else {})})
            elif scen == "group-and-child":
                g = w.create_entity(ContainerGroup, save_on_creation=False, entity={"name": "deferred group"})
                Points.create(w, name="child of deferred", vertices=xyz + 20, parent=g)
            elif scen == "data":
                obj = w.get_entity("stored first")[0]
                from geoh5py.data import FloatData

                w.create_entity(FloatData, save_on_creation=False, entity={"name": "deferred data", "parent": obj, "values": np.arange(len(xyz), dtype=float) + 0.5, "association": "VERTEX"}, entity_type={"primitive_type": "FLOAT", "name": "deferred data"})
            elif scen == "rootless":
                Points.create(w, name="new under rebuilt root", vertices=xyz + 30)
            else:
                g = w.get_entity("stored group")[0]
                Points.create(w, name="new under stored group", vertices=xyz + 40, parent=g)
                ContainerGroup.create(w, name="new group under rebuilt root")
            return snap.api_snapshot(w)

        live = None
        try:
            if variant in ("with-abort", "with-normal"):
                with Workspace(path) as w:
                    ws = w
                    live = work(w)
                    if variant == "with-abort":
                        rec.see("aborts")
                        raise Abort()
            elif variant == "explicit":
                ws = Workspace(path)
                live = work(ws)
                ws.close()
            else:
                ws = Workspace(path, mode="r")
                ws.close()
                with fetch_active_workspace(ws, mode="r+") as w:
                    live = work(w)
                    if variant == "helper-abort-closed":
                        rec.see("aborts")
                        raise Abort()
        except Abort:
            pass
        rec.check("C11.not-closed", not bool(ws._geoh5), op="deferred:" + variant, cls="Workspace", attr=scen, detail="workspace still holds an open handle")  # noqa: SLF001
        gc.collect()
        now = open_objects()
        rec.check("C11.handle-leak", now == baseline, op="deferred:" + variant, cls="Workspace", attr=scen, detail=f"{now - baseline} HDF5 objects still open after close")
        raw = snap.raw_snapshot(path)
        rec.evals["C11.invalid-file"] += 1
        for rule, kind, detail, _subject in snap.validate_raw(raw):
            rec.fail("C11.invalid-file", op="deferred:" + variant, cls=kind, attr=rule, detail=detail, counted=True)
        twin = Workspace(path, mode="r")
        try:
            reopened = snap.api_snapshot(twin)
        finally:
            twin.close()
        if scen.startswith("rootless"):
            # the rebuilt root got a new identifier when it was stored; everything below it is compared by name
            strip_root = lambda s_: sorted((r.get("name"), r.get("cls"), short(r.get("vertices"), 200), len(r.get("children") or [])) for r in s_.values() if r.get("cls") != "RootGroup")  # noqa: E731
            rec.check("C11.completed-op-missing", strip_root(live) == strip_root(reopened), op="deferred:" + variant, cls="Workspace", attr=scen, detail=f"before the close the session showed {[x[:2] for x in strip_root(live)]}, a reader of the closed file gets {[x[:2] for x in strip_root(reopened)]}")
        else:
            hist.diff_snapshots(rec, PROP, "C11.completed-op-missing", live, reopened, "deferred:" + variant + ":" + scen)
            rec.evals["C11.completed-op-missing"] += len(reopened)
        ws.open()
        again = snap.api_snapshot(ws)
        ws.close()
        hist.diff_snapshots(rec, PROP, "C11.reopen-restores", reopened, again, "deferred:" + variant + ":" + scen)
        rec.evals["C11.reopen-restores"] += 1
        rec.nontrivial = True
        rec.shape = ["deferred", variant, scen, case["extra"]]
        rec.sample = {"variant": variant, "scenario": scen}
    finally:
        try:
            ws.close()
        except Exception:  # noqa: BLE001
            pass
        shutil.rmtree(d, ignore_errors=True)
        gc.collect()


def run_fallback(case, rec):
    """The file is held by another reader of the same process, so the default open of the workspace falls back to read-only.
    Closing such a workspace - explicitly, by leaving the block, by an exception, through the helper - still releases the handle
    and raises nothing, and later accesses raise the closed-file error."""
    import tempfile

    from geoh5py.objects import Points
    from geoh5py.shared.exceptions import Geoh5FileClosedError
    from geoh5py.shared.utils import fetch_active_workspace
    from geoh5py.workspace import Workspace

    variant = case["variant"]
    rec.see("variant:fallback:" + variant)
    d = tempfile.mkdtemp(prefix="gvm_c11f_")
    path = os.path.join(d, f"f{os.getpid()}.geoh5")
    holder = ws = None
    try:
        with Workspace.create(path) as w0:
            for k in range(1 + case["extra"]):
                p = Points.create(w0, vertices=np.arange(9.0).reshape(3, 3) + k, name=f"p{k}")
                p.add_data({"d": {"values": np.arange(3.0) + k}})
        p = None
        holder = h5py.File(path, "r")
        baseline = open_objects()
        held = []
        err = None
        try:
            if variant in ("with-normal", "with-abort"):
                with Workspace(path) as ws:
                    rec.see("fallback-mode:" + ws.geoh5.mode)
                    held = [ws.get_entity("p0")[0]]
                    _ = held[0].vertices
                    if variant == "with-abort":
                        rec.see("aborts")
                        raise Abort()
            elif variant == "explicit":
                ws = Workspace(path)
                rec.see("fallback-mode:" + ws.geoh5.mode)
                held = [ws.get_entity("p0")[0]]
                _ = held[0].vertices
                ws.close()
            else:
                ws = Workspace(path)
                rec.see("fallback-mode:" + ws.geoh5.mode)
                ws.close()
                with fetch_active_workspace(ws) as w:
                    held = [w.get_entity("p0")[0]]
        except Abort:
            pass
        except Exception as exc:  # noqa: BLE001
            from ..core import exc_origin

            if not exc_origin(exc)[0]:
                raise
            err = exc
        rec.check("C11.close-raises", err is None, op="fallback:" + variant, cls="Workspace", attr=type(err).__name__ if err else "", detail=f"closing a workspace whose open fell back to read-only raised {type(err).__name__}: {str(err)[:160]}")
        rec.check("C11.not-closed", ws is not None and not bool(ws._geoh5), op="fallback:" + variant, cls="Workspace", attr="", detail="the workspace still holds an open handle after the close")  # noqa: SLF001
        gc.collect()
        now = open_objects()
        rec.check("C11.handle-leak", now == baseline, op="fallback:" + variant, cls="Workspace", attr="", detail=f"{now - baseline} HDF5 objects still open after the close (the other reader's handle excluded)")
        for ent in held:
            if ent is None:
                continue
            rec.evals["C11.after-close-access"] += 1
            try:
                ws.fetch_children(ent)
                rec.fail("C11.stale-after-close", op="fallback:" + variant, cls=type(ent).__name__, attr="fetch_children", detail="fetch_children after the close returned instead of raising Geoh5FileClosedError")
            except Geoh5FileClosedError:
                pass
            except Exception as exc:  # noqa: BLE001
                rec.fail("C11.wrong-error", op="fallback:" + variant, cls=type(ent).__name__, attr="fetch_children", detail=f"raised {type(exc).__name__}: {exc}")
        rec.nontrivial = True
        rec.shape = ["fallback", variant, case["extra"]]
        rec.sample = {"variant": "fallback:" + variant}
    finally:
        for h in (ws, holder):
            try:
                if h is not None:
                    h.close()
            except Exception:  # noqa: BLE001
                pass
        shutil.rmtree(d, ignore_errors=True)
        gc.collect()


def open_objects():
    return h5py.h5f.get_obj_count(h5py.h5f.OBJ_ALL, h5py.h5f.OBJ_ALL)


SKIP_GETTERS = {"workspace", "attribute_map", "converter", "image", "image_data", "image_georeferenced", "tag", "default_vertices", "entity_type", "parent", "children", "property_groups", "comments", "visual_parameters", "concatenator", "drillholes_tables", "drillholes_table_from_data_name"}


def getters_of(e):
    out = []
    for name in dir(type(e)):
        if name.startswith("_") or name in SKIP_GETTERS:
            continue
        if isinstance(getattr(type(e), name, None), property):
            out.append(name)
    return out


def call_getter(e, name):
    from geoh5py.shared.exceptions import Geoh5FileClosedError

    try:
        return "value", canon(getattr(e, name))
    except Geoh5FileClosedError:
        return "closed-error", None
    except Exception as exc:  # noqa: BLE001
        return "other-error", f"{type(exc).__name__}: {str(exc)[:100]}"


def run_case(case, rec):
    from geoh5py.shared.utils import fetch_active_workspace
    from geoh5py.workspace import Workspace

    if case["kind"] == "concat":
        return run_concat(case, rec)
    if case["kind"] == "deferred":
        return run_deferred(case, rec)
    if case["kind"] == "fallback":
        return run_fallback(case, rec)
    rng = random.Random(case["hseed"])
    from ..core import seed_all

    seed_all(case["hseed"])  # the same history prefix for every k
    variant, k = case["variant"], case["k"]
    rec.see("variant:" + variant)
    baseline = open_objects()
    eng = hist.Engine(rec, rng, PROP, weights={"reopen": 0.3, "dup_uid": 0.0, "open_again": 0.0}, monitors=[], gc_plan=case["gc"], ref_policy=case["refs"], n_ops=case["n"], classes=["Points", "Curve", "Surface", "Grid2D", "BlockModel", "Octree", "Drillhole", "DrapeModel", "Label"])
    state = {}

    def prefix(e):
        for step in range(k):
            if not e.step(step):
                raise RuntimeError("library raised inside the prefix")

    def body(e):
        ws = e.ws
        path = e.path
        held = []
        live = None
        try:
            if variant in ("with-abort", "with-normal"):
                try:
                    with ws:
                        prefix(e)
                        held = collect_handles(e)
                        live = snap.api_snapshot(ws)
                        if variant == "with-abort":
                            rec.see("aborts")
                            raise Abort()
                except Abort:
                    pass
            elif variant == "explicit-double":
                prefix(e)
                held = collect_handles(e)
                live = snap.api_snapshot(ws)
                ws.close()
                ws.close()
            elif variant in ("helper-abort-closed", "helper-abort-readonly", "helper-normal"):
                ws.close()
                if variant == "helper-abort-readonly":
                    ws.open(mode="r")
                e.refs.clear()
                try:
                    with fetch_active_workspace(ws, mode="r+") as w:
                        assert w is ws
                        prefix(e)
                        held = collect_handles(e)
                        live = snap.api_snapshot(ws)
                        if variant != "helper-normal":
                            rec.see("aborts")
                            raise Abort()
                except Abort:
                    pass
            elif variant == "save-as":
                prefix(e)
                held = collect_handles(e)
                live = snap.api_snapshot(ws)
                new_path = path.replace("w.geoh5", "saved.geoh5")
                ws.save_as(new_path)
                state["old_path"] = path
                path = new_path
                ws.close()
        except RuntimeError:
            return  # the prefix itself failed: recorded by the engine as op-raises
        e.refs.clear()
        judge(rec, e, ws, path, held, live, baseline, variant, state)

    eng.run(body=body)
    rec.shape = [variant, [o["op"] for o in eng.log]]
    rec.sample = {"variant": variant, "k": k, "prefix": [short({kk: v for kk, v in o.items() if kk != "removed"}, 120) for o in eng.log[:6]]}
    rec.nontrivial = k >= 1 and len(eng.model.nodes) >= 2
    gc.collect()


def collect_handles(e):
    """Entities 'previously obtained' by the user: one handle per entity in the model."""
    held = []
    for u in list(e.model.nodes):
        ent = e.ent(u)
        if ent is not None:
            held.append((u, ent))
    return held


def judge(rec, e, ws, path, held, live, baseline, variant, state):
    from geoh5py.shared.exceptions import Geoh5FileClosedError
    from geoh5py.workspace import Workspace

    # 1. the close happened and released every HDF5 object
    closed = not bool(ws._geoh5)  # noqa: SLF001 - the only way to see the handle without re-opening
    rec.check("C11.not-closed", closed, op=variant, cls="Workspace", attr="", detail="workspace still holds an open file handle after the block ended")
    gc.collect()
    now = open_objects()
    rec.check("C11.handle-leak", now == baseline, op=variant, cls="Workspace", attr="", detail=f"{now - baseline} HDF5 objects still open after close (baseline {baseline})")
    if not closed:
        try:
            ws.close()
        except Exception:  # noqa: BLE001
            pass
    # 2. file valid
    for p in [path] + ([state["old_path"]] if "old_path" in state else []):
        try:
            raw = snap.raw_snapshot(p)
        except Exception as exc:  # noqa: BLE001
            rec.fail("C11.invalid-file", op=variant, cls="file", attr="unreadable", detail=f"{type(exc).__name__}: {exc}")
            return
        rec.evals["C11.invalid-file"] += 1
        for rule, kind, detail, subject in snap.validate_raw(raw):
            if subject in e.parent_removed or any(q in str(detail) for q in e.parent_removed):
                continue  # C02 known finding (lazy sweep of parent-removed nodes), judged there
            rec.fail("C11.invalid-file", op=variant, cls=kind, attr=rule, detail=detail, counted=True)
    # 3. every completed operation is in the file
    twin = Workspace(path, mode="r")
    try:
        reopened = snap.api_snapshot(twin)
        if live is not None:
            hist.diff_snapshots(rec, PROP, "C11.completed-op-missing", live, reopened, variant)
        hist.compare_model(rec, PROP, e.model, reopened, "reopened")
        rec.evals["C11.completed-op-missing"] += len(reopened)
        # 4. access through previously obtained entities after the close
        for u, ent in held:
            t = twin.get_entity(__import__("uuid").UUID(u))[0]
            if t is None and u == e.model.root:
                t = twin.root
            if t is None:
                continue
            for g in getters_of(ent):
                kind_t, val_t = call_getter(t, g)
                if kind_t != "value":
                    continue
                kind_c, val_c = call_getter(ent, g)
                rec.evals["C11.after-close-access"] += 1
                if kind_c == "closed-error":
                    continue
                if kind_c == "other-error":
                    rec.fail("C11.wrong-error", op=variant, cls=type(ent).__name__, attr=g, detail=f"{g} on a closed workspace raised {val_c} instead of Geoh5FileClosedError", counted=True)
                elif val_c != val_t:
                    rec.fail("C11.stale-after-close", op=variant, cls=type(ent).__name__, attr=g, detail=f"{g} on a closed workspace returned {short(val_c)} but the file holds {short(val_t)}", counted=True)
            # a call that must go to the file (once per case)
            if hasattr(ent, "children") and not state.get("fetched"):
                state["fetched"] = True
                try:
                    ws.fetch_children(ent)
                    rec.fail("C11.stale-after-close", op=variant, cls=type(ent).__name__, attr="fetch_children", detail="fetch_children on a closed workspace returned instead of raising Geoh5FileClosedError")
                except Geoh5FileClosedError:
                    rec.evals["C11.after-close-access"] += 1
                except Exception as exc:  # noqa: BLE001
                    rec.fail("C11.wrong-error", op=variant, cls=type(ent).__name__, attr="fetch_children", detail=f"raised {type(exc).__name__}: {exc}")
    finally:
        twin.close()
    writes_after_close(rec, [h for h in held if h[0] != e.model.root][:6], variant)
    # the project header is stored as well: assigning it needs the file
    for attr, val in (("ga_version", "9.9"), ("distance_unit", "feet")):
        rec.evals["C11.after-close-access"] += 1
        try:
            setattr(ws, attr, val)
        except Geoh5FileClosedError:
            continue
        except Exception as exc:  # noqa: BLE001
            rec.fail("C11.wrong-error", op=variant, cls="Workspace", attr="set:" + attr, detail=f"assigning {attr} on a closed workspace raised {type(exc).__name__}: {str(exc)[:100]}", counted=True)
            continue
        rec.fail("C11.stale-after-close", op=variant, cls="Workspace", attr="set:" + attr, detail=f"assigning the workspace's {attr} after the close returned without an error (the value is dropped by the next open)", counted=True)
    old_handles = [h for h in held if h[0] != e.model.root and e.model.nodes.get(h[0]) is not None and e.model.nodes[h[0]].kind in ("object", "group") and e.model.nodes[h[0]].dkind != "auto"][:1]
    del held
    # 5. re-opening restores full access to the same content
    try:
        if state.get("visit", len(reopened)) % 2 == 0:
            # a helper visits the closed workspace for reading first (what monitored_directory_copy and most scripts do)
            from geoh5py.shared.utils import fetch_active_workspace

            with fetch_active_workspace(ws, mode="r") as w:
                visit = snap.api_snapshot(w)
            hist.diff_snapshots(rec, PROP, "C11.reopen-restores", reopened, visit, variant + ":read-only-visit")
            rec.check("C11.not-closed", not bool(ws._geoh5), op=variant + ":read-only-visit", cls="Workspace", attr="", detail="the helper left the workspace open although it found it closed")  # noqa: SLF001
            rec.see("read-only-helper-visits-before-the-reopen")
        ws.open()
        # full access: the workspace was made for writing, and a plain open() gives that back
        try:
            ws.ga_version = str(ws.ga_version)
            wrote = None
        except Exception as exc:  # noqa: BLE001
            from ..core import exc_origin

            if not exc_origin(exc)[0]:
                raise
            wrote = exc
        rec.check("C11.reopen-restores", wrote is None, op=variant, cls="Workspace", attr="write-after-reopen", detail=f"after the close the workspace (made for writing) was opened again with open(): a write raises {type(wrote).__name__}: {str(wrote)[:120]}; file mode {ws.geoh5.mode}")
        again = snap.api_snapshot(ws)
        hist.diff_snapshots(rec, PROP, "C11.reopen-restores", reopened, again, variant)
        rec.evals["C11.reopen-restores"] += 1
        # an entity obtained before the close is used again after the re-open: what is done through it counts as well
        renamed = None
        for u, ent in old_handles:
            try:
                ent.name = "renamed through a handle from before the close"
                renamed = (u, ent.name)
                rec.see("edits-through-handles-from-before-the-close")
            except Exception as exc:  # noqa: BLE001
                from ..core import exc_origin

                if not exc_origin(exc)[0]:
                    raise
                rec.see("old-handle-edit-refused:" + type(exc).__name__)
        old_handles = None
        ws.close()
        if renamed is not None:
            with Workspace(path, mode="r") as w3:
                got = w3.get_entity(__import__("uuid").UUID(renamed[0]))[0]
                rec.check("C11.completed-op-missing", got is not None and got.name == renamed[1], op=variant + ":old-handle-after-reopen", cls=type(got).__name__ if got is not None else "None", attr="name", detail=f"renamed to {renamed[1]!r} through an entity obtained before the close (workspace re-opened in between); a fresh reader sees {None if got is None else got.name!r}")
    except Exception as exc:  # noqa: BLE001
        from ..core import exc_origin

        if not exc_origin(exc)[0]:
            raise
        rec.fail("C11.reopen-restores", op=variant, cls="Workspace", attr=type(exc).__name__, detail=f"re-opening after the close raised {type(exc).__name__}: {exc}")
    gc.collect()
    rec.check("C11.handle-leak", open_objects() == baseline, op=variant + ":after-reopen", cls="Workspace", attr="", detail=f"{open_objects() - baseline} HDF5 objects open at the end")
