"""C04 — concatenated drillhole storage keeps each hole's data intact and separate.

History + executable model.  A reference model {hole -> {table -> (locations, {data name -> values})}} is
driven in lock-step with seeded add / update / rename / remove (workspace or parent route) / re-open / copy /
group-table histories on a drillhole group (both attribute encodings, 2.0 and 2.1).  Every written array
carries a unique tag (exactly representable in float32), so a value read from the wrong hole, data set or
version identifies itself.  After every step the live API must return the model's values for every hole and
the group-wide table must list them per hole; at every close the raw 'Concatenated Data' block is validated
with plain h5py (exact tiling of each array by its index rows, no stale / duplicate rows, one attribute record
per live hole / data / property group) and a fresh reader must return the model's values."""
from __future__ import annotations

import gc
import json
import os
import random
import shutil
import tempfile
import uuid
import warnings

import h5py
import numpy as np

from ..core import exc_origin, short

PROP = "C04"
LEVEL = "exploration"
RULE = (
    "case = one seeded history (8-40 steps) on one drillhole group, format version and profile (mixed / remove-readd / "
    "rename / tables / zero-length / reopen-heavy) fixed per case; non-trivial = >= 4 accepted mutating steps and >= 1 close "
    "with the raw block validated; distinct = (version, profile, sequence of step kinds)."
)
ASSUMPTIONS = [
    "data names are unique inside a hole (the hole's 'Property:<name>' map cannot hold two); names are shared between holes",
    "new tables in one hole use depths that are not collocated with an existing table of that hole",
    "a data name stands for one primitive type across the holes of a group (the concatenated arrays are keyed by name): names carry their type in a prefix",
    "a hole has at most one zero-length depth table and one zero-length interval table (two empty tables are trivially collocated)",
    "'hole order' of the group table is the order of the association's index rows by start offset (what the table itself defines)",
]
TRACE = bool(os.environ.get("GVM_TRACE"))
ZERO = "{00000000-0000-0000-0000-000000000000}"
POOL = ["Au", "Cu", "Zn", "Pb", "Ag", "Fe"]
OBJECT_LABELS = ("Surveys", "Trace", "Property Group IDs", "TraceDepth")
PROFILES = ["mixed", "readd", "rename", "tables", "zero", "reopen", "mixed", "removal"]
WEIGHTS = {
    "mixed": dict(retype=0.6, rename_clash=0.7, add_hole=2, new_table=4, add_to_table=4, update=4, rename=1, rm_data=3, rm_pg=1, rm_hole=2, reopen=3, copy_hole=1, table_push=1, copy_group=0.5),
    "readd": dict(retype=0.6, add_hole=1, new_table=5, add_to_table=3, update=2, rename=0, rm_data=5, rm_pg=3, rm_hole=2, reopen=3, copy_hole=0, table_push=0, copy_group=0),
    "rename": dict(retype=0.6, rename_clash=2, add_hole=1, new_table=3, add_to_table=3, update=2, rename=5, rm_data=1, rm_pg=0, rm_hole=0, reopen=3, copy_hole=0, table_push=0, copy_group=0),
    "tables": dict(retype=0.6, add_hole=2, new_table=3, add_to_table=2, update=2, rename=0, rm_data=1, rm_pg=1, rm_hole=1, reopen=2, copy_hole=0, table_push=5, copy_group=0),
    "zero": dict(retype=0.6, add_hole=2, new_table=5, add_to_table=3, update=2, rename=0, rm_data=4, rm_pg=2, rm_hole=1, reopen=3, copy_hole=1, table_push=0, copy_group=0),
    "reopen": dict(retype=0.6, rename_clash=0.7, add_hole=1, new_table=3, add_to_table=3, update=4, rename=0, rm_data=3, rm_pg=1, rm_hole=2, reopen=8, copy_hole=1, table_push=1, copy_group=1),
    "removal": dict(retype=0.6, add_hole=1, new_table=2, add_to_table=2, update=1, rename=0, rm_data=5, rm_pg=3, rm_hole=4, reopen=4, copy_hole=1, table_push=0, copy_group=1),
}


def floors(tier):
    return {"steps": 3000, "closes-validated": 300, "C04.values-live": 20000, "C04.values-reopen": 3000, "C04.tiling": 3000, "C04.table": 300,
            "op:rm_data": 120, "op:rm_hole": 100, "op:update": 120, "op:new_table": 300, "op:copy_hole": 20, "op:table_push": 20, "zero-length-arrays": 6, "version:2.0": 50, "version:2.1": 50}


def gen_cases(tier, seed):
    n = 240 if tier == "quick" else 1600
    out = []
    for i in range(n):
        out.append({"naming": "free" if i % 8 in (6, 7) else "plan", "version": [2.0, 2.1][i % 2], "profile": PROFILES[(i // 2) % len(PROFILES)], "n_ops": [8, 14, 22, 40][(i // 16) % 4] if tier == "thorough" else [8, 14, 22][(i // 16) % 3]})
    for i in range(24 if tier == "quick" else 160):
        out.append({"kind": "shared_types", "version": [2.0, 2.1][i % 2]})
    return out


# --------------------------------------------------------------------------------------------------------
class Model:
    def __init__(self):
        self.holes = {}  # uid str -> {"name", "tables": {pg: {"kind", "loc": {name: arr}, "props": {name: arr}}}}
        self.tag = 0

    def fresh(self, n, rng, nan=True, kind="float"):
        self.tag += 1
        if kind == "int":
            return (self.tag * 64 + np.arange(n)).astype("int32")
        if kind == "text":
            return np.array([f"s{self.tag}_{i}" for i in range(n)], dtype="U12") if n else np.array([], dtype="U12")
        if kind == "referenced":
            return np.array([rng.randint(1, 3) for _ in range(n)], dtype="int32")
        if kind == "bool":
            return np.array([rng.random() < 0.5 for _ in range(n)], dtype=bool)
        v = (self.tag * 64 + np.arange(n)).astype(float)
        if nan and n > 1 and rng.random() < 0.4:
            v[rng.randrange(n)] = np.nan
        return v

    def names(self, u):
        out = set()
        for t in self.holes[u]["tables"].values():
            out |= set(t["loc"]) | set(t["props"])
        return out

    def all_data(self, u):
        for pg, t in self.holes[u]["tables"].items():
            for nm, v in list(t["loc"].items()) + list(t["props"].items()):
                yield pg, nm, v


KIND_BY_PREFIX = {"Au": "float", "Cu": "float", "Zn": "int", "Pb": "text", "Ag": "referenced", "Fe": "bool", "Rf": "float", "Ri": "int", "Rt": "text", "Rr": "referenced", "Rb": "bool", "Pu": "float"}


def kind_of_name(name):
    return KIND_BY_PREFIX.get(name[:2], "float")


def kind_of_values(v):
    k = np.asarray(v).dtype.kind
    if k in "US":
        return "text"
    if k == "b":
        return "bool"
    if k in "iu":
        return "referenced" if len(v) and set(np.asarray(v).tolist()) <= {1, 2, 3} else "int"
    return "float"


def spec_for(vals, kind):
    """The add_data entry for values of a kind."""
    if kind == "text":
        return {"values": vals.copy(), "type": "text"}
    if kind == "referenced":
        return {"values": vals.astype("uint32"), "type": "referenced", "value_map": {1: "A", 2: "B", 3: "C"}}
    return {"values": vals.copy()}


def nloc(t):
    """Number of rows of a table (0 for a group without location data)."""
    return len(next(iter(t["loc"].values()))) if t["loc"] else 0


def eq(a, b):
    if a is None or b is None:
        return a is None and b is None or (a is None and len(b) == 0) or (b is None and len(a) == 0)
    a, b = np.asarray(a), np.asarray(b)
    if a.shape != b.shape:
        return False
    if a.dtype.kind in "USO" or b.dtype.kind in "USO":
        return [s(x) for x in a.tolist()] == [s(x) for x in b.tolist()]
    try:
        return bool(np.array_equal(a.astype(float), b.astype(float), equal_nan=True))
    except (TypeError, ValueError):
        return bool(np.array_equal(a, b))


def s(x):
    return x.decode() if isinstance(x, bytes) else str(x)


class Driver:
    def __init__(self, case, rec, rng):
        self.case, self.rec, self.rng = case, rec, rng
        self.m = Model()
        self.dir = tempfile.mkdtemp(prefix="gvm_")
        self.path = os.path.join(self.dir, "dh.geoh5")
        self.kinds = []
        self.accepted = 0
        self.closes = 0
        self.plan = None
        if case.get("naming", "plan") == "plan":
            self.plan = [(f"tab{i}", rng.random() < 0.4) for i in range(6)]
        self.tainted = set()  # hole uids whose storage a known-finding mechanism has already damaged
        self.removed = set()

    def pool(self, k):
        """Data names: shared between holes; in plan mode one pool per table, so that a label belongs to one table name."""
        # (free naming also uses column names that spell a word of the file format: "Unknown" is an everyday lithology column)
        return POOL + ["Unknown", "Text", "Data"] if self.plan is None else [f"{p}{k}" for p in POOL[:4]]

    # -- access ------------------------------------------------------------------------------------------
    def hole(self, u):
        return self.ws.get_entity(uuid.UUID(u))[0]

    def data(self, u, name):
        h = self.hole(u)
        got = [d for d in h.get_data(name) if d is not None] if h is not None else []
        return got[0] if got else None

    # -- judges ------------------------------------------------------------------------------------------
    def judge_values(self, clause, where):
        rec = self.rec
        for u, hm in self.m.holes.items():
            h = self.hole(u)
            if h is None:
                rec.fail(clause, op=where, cls="ConcatenatedDrillhole", attr="missing-hole", detail=f"hole {hm['name']} cannot be found")
                continue
            try:
                listed = sorted(n for n in h.get_data_list() if n != "Visual Parameters")
            except Exception as exc:  # noqa: BLE001
                if not exc_origin(exc)[0]:
                    raise
                rec.fail(clause, op=where, cls="ConcatenatedDrillhole", attr="get_data_list-raises", detail=f"{type(exc).__name__}: {short(str(exc), 200)}")
                continue
            taint = "after-rename" if u in self.tainted else ""
            rec.check(clause, listed == sorted(self.m.names(u)), op=where, cls="data-names", attr=taint, detail=f"hole {hm['name']} lists data {listed}, model has {sorted(self.m.names(u))}")
            for pg, nm, v in self.m.all_data(u):
                try:
                    d = self.data(u, nm)
                    got = None if d is None else d.values
                except Exception as exc:  # noqa: BLE001
                    if not exc_origin(exc)[0]:
                        raise
                    rec.fail(clause, op=where, cls="values-raise", attr=taint, detail=f"reading {hm['name']}.{nm}: {type(exc).__name__}: {short(str(exc), 160)}")
                    continue
                ok = eq(got, v)
                rec.check(clause, ok, op=where, cls="values", attr=taint or ("zero-length" if len(v) == 0 else ""),
                          detail=f"hole {hm['name']} data {nm!r} (table {pg}): read {short(repr(None if got is None else np.asarray(got).tolist()), 200)}, last written {short(repr(v.tolist()), 200)}")
            # property groups list exactly the model's tables and members
            try:
                pgs = {p.name: [self_name(h, x) for x in (p.properties or [])] for p in (h.property_groups or [])}
            except Exception as exc:  # noqa: BLE001
                if not exc_origin(exc)[0]:
                    raise
                rec.fail(clause, op=where, cls="property-groups-raise", attr=taint, detail=f"{type(exc).__name__}: {short(str(exc), 160)}")
                continue
            exp = {pg: list(t["loc"]) + list(t["props"]) for pg, t in hm["tables"].items()}
            rec.check(clause, {k: sorted(v) for k, v in pgs.items()} == {k: sorted(v) for k, v in exp.items()}, op=where, cls="property-groups", attr=taint,
                      detail=f"hole {hm['name']} property groups {pgs}, model {exp}")
        for u in self.removed if clause == "C04.values-reopen" else ():  # live registry visibility is C05's subject
            rec.check(clause, self.hole(u) is None, op=where, cls="removed-hole-visible", attr="", detail=f"removed hole {u} can still be looked up")

    def judge_table(self, where):
        """Group-wide table view: per hole, exactly the model's values, holes contiguous and once each."""
        rec = self.rec
        try:
            tables = self.grp.drillholes_tables
        except Exception as exc:  # noqa: BLE001
            if not exc_origin(exc)[0]:
                raise
            rec.fail("C04.table", op=where, cls="drillholes_tables-raises", attr="", detail=f"{type(exc).__name__}: {short(str(exc), 200)}")
            return
        pg_names = sorted({pg for hm in self.m.holes.values() for pg in hm["tables"]})
        for pg in pg_names:
            members = {u: hm["tables"][pg] for u, hm in self.m.holes.items() if pg in hm["tables"]}
            if any(u in self.tainted for u in members):
                continue
            loc_names = {tuple(t["loc"]) for t in members.values()}
            labels = {n for t in members.values() for n in list(t["loc"]) + list(t["props"])}
            # the table view is keyed by data labels: another property group using one of this table's labels makes it ambiguous
            shared = any(pg2 != pg and labels & (set(t2["loc"]) | set(t2["props"])) for hm in self.m.holes.values() for pg2, t2 in hm["tables"].items())
            amb = "label-shared-with-other-group" if shared else ""
            if len(loc_names) != 1 or all(nloc(t) == 0 for t in members.values()):
                rec.see("table-skipped-heterogeneous")
                continue
            if pg not in tables:
                rec.fail("C04.table", op=where, cls="table-missing", attr=amb, detail=f"no group table for property group {pg!r}; have {sorted(tables)}")
                continue
            try:
                tab = tables[pg].depth_table
            except Exception as exc:  # noqa: BLE001
                if not exc_origin(exc)[0]:
                    raise
                rec.fail("C04.table", op=where, cls="depth_table-raises", attr=amb or type(exc).__name__, detail=f"table {pg!r}: {type(exc).__name__}: {short(str(exc), 200)}")
                continue
            col = [s(x).strip("{}") for x in tab["Drillhole"]]
            order = []
            for x in col:
                if not order or order[-1] != x:
                    order.append(x)
            nonempty = {u for u, t in members.items() if nloc(t) > 0}
            rec.check("C04.table", len(order) == len(set(order)) and set(order) == nonempty, op=where, cls="holes", attr=amb,
                      detail=f"table {pg!r} lists holes {order}; holes with rows in the model: {sorted(nonempty)}")
            cols = [c for c in tab.dtype.names if c != "Drillhole"]
            prop_names = sorted({n for t in members.values() for n in t["props"]})
            rec.check("C04.table", sorted(cols) == sorted(list(next(iter(loc_names))) + prop_names), op=where, cls="columns", attr=amb, detail=f"table {pg!r} columns {cols}; model {list(next(iter(loc_names))) + prop_names}")
            if len(prop_names) >= 2 and not amb and all(n in cols for n in prop_names):
                # a selection of columns, asked for in another order than the table keeps them: each column under its own name
                asked = tuple(reversed(prop_names))
                try:
                    sub = np.asarray(tables[pg].depth_table_by_name(asked))
                    for n in asked:
                        same = n in (sub.dtype.names or ()) and eq(np.asarray(sub[n].tolist(), dtype=object), np.asarray(tab[n].tolist(), dtype=object))
                        rec.check("C04.table", same, op=where, cls="columns-by-name", attr="", detail=f"table {pg!r}: depth_table_by_name({asked}) column {n!r} = {short(repr(sub[n].tolist() if n in (sub.dtype.names or ()) else None), 120)}; the full table has {short(repr(tab[n].tolist()), 120)}")
                    rec.see("column-selections-judged")
                except Exception as exc:  # noqa: BLE001
                    if not exc_origin(exc)[0]:
                        raise
                    rec.see("column-selection-refused:" + type(exc).__name__)
            for u in order:
                if u not in members:
                    continue
                rows = tab[np.asarray(col) == u]
                t = members[u]
                n = nloc(t)
                for c in cols:
                    exp = t["loc"].get(c, t["props"].get(c))
                    if exp is None:
                        if kind_of_name(c) != "float":
                            rec.see("table-nonfloat-filler-not-judged")
                            continue  # the filler of a missing non-float column is the data type's no-data value: not modelled
                        exp = np.full(n, np.nan)
                    elif len(exp) < n:
                        exp = np.r_[exp, np.full(n - len(exp), np.nan)]
                    got = np.asarray(rows[c].tolist())
                    rec.check("C04.table", eq(got, exp), op=where, cls="rows", attr=amb,
                              detail=f"table {pg!r} hole {self.m.holes[u]['name']} column {c!r}: {short(repr(got.tolist()), 160)}; model {short(repr(np.asarray(exp).tolist()), 160)}")
            rec.see("tables-judged")

    def judge_file(self, where):
        """Raw layout of the closed file."""
        rec = self.rec
        with h5py.File(self.path, "r") as h5:
            base = h5[list(h5)[0]]
            node = base["Groups"]["{" + str(self.grp_uid) + "}"]
            cat = node["Concatenated Data"]
            live_holes = set(self.m.holes)
            ids = [s(x).strip("{}") for x in (node["Concatenated object IDs"][()] if "Concatenated object IDs" in node else [])]
            rec.check("C04.object-ids", sorted(ids) == sorted(live_holes), op=where, cls="Concatenated object IDs", attr="duplicate" if len(ids) != len(set(ids)) else ("stale" if set(ids) - live_holes else "missing"),
                      detail=f"Concatenated object IDs {sorted(ids)} vs live holes {sorted(live_holes)}")
            # attribute records
            if "Attributes Jsons" in cat:
                recs = [json.loads(s(x)) for x in cat["Attributes Jsons"][()]]
            elif "Attributes" in cat:
                raw = cat["Attributes"][()]
                raw = raw[0] if isinstance(raw, np.ndarray) else raw
                recs = json.loads(s(raw))["Attributes"]
            else:
                recs = []
            rec_ids = [str(r.get("ID", "")).strip("{}") for r in recs]
            by_id = {i: r for i, r in zip(rec_ids, recs)}
            # live data and pg uids from the record of each hole
            data_uid = {}
            for u in live_holes:
                r = by_id.get(u)
                if r is None:
                    rec.fail("C04.attributes", op=where, cls="hole-record", attr="missing", detail=f"no attribute record for live hole {self.m.holes[u]['name']}")
                    continue
                props = {k[len("Property:"):]: str(v).strip("{}") for k, v in r.items() if k.startswith("Property:")}
                taint = "after-rename" if u in self.tainted else ""
                rec.check("C04.attributes", sorted(props) == sorted(self.m.names(u)), op=where, cls="property-keys", attr=taint, detail=f"hole {self.m.holes[u]['name']} record has Property: keys {sorted(props)}, model data {sorted(self.m.names(u))}")
                for nm, du in props.items():
                    data_uid[(u, nm)] = du
            expected_ids = set(live_holes) | set(data_uid.values())
            # property group records: identified by not being a hole / data record
            others = [i for i in rec_ids if i not in expected_ids]
            n_pg = sum(len(hm["tables"]) for hm in self.m.holes.values())
            pg_recs = [by_id[i] for i in others if "Property Group Type" in by_id[i] or "Properties" in by_id[i]]
            stale = [i for i in others if by_id[i] not in pg_recs]
            dup = sorted({i for i in rec_ids if rec_ids.count(i) > 1})
            rec.check("C04.attributes", not dup, op=where, cls="records", attr="duplicate", detail=f"attribute records appear more than once: {dup[:3]}")
            rec.check("C04.attributes", not stale, op=where, cls="records", attr="after-rename" if self.tainted else "stale", detail=f"{len(stale)} attribute records belong to no live hole, data set or property group: {[by_id[i].get('Name') for i in stale][:4]}")
            rec.check("C04.attributes", len(pg_recs) == n_pg, op=where, cls="records", attr="after-rename" if self.tainted else "property-groups", detail=f"{len(pg_recs)} property-group records, model has {n_pg} groups: {[r.get('Name') for r in pg_recs]}")
            for tainted in (False, True):
                missing = [k for k, du in data_uid.items() if du not in by_id and (k[0] in self.tainted) == tainted]
                rec.check("C04.attributes", not missing, op=where, cls="records", attr="after-rename" if tainted else "data-missing", detail=f"no attribute record for data {missing[:3]}")
            # index / data tiling
            index = cat["Index"] if "Index" in cat else {}
            datag = cat["Data"] if "Data" in cat else {}
            labels = set(index) | set(datag)
            for label in sorted(labels):
                is_obj = label in OBJECT_LABELS
                arr = (cat[label][()] if label in cat else None) if is_obj else (datag[label][()] if label in datag else None)
                rows = index[label][()] if label in index else None
                kind = label if is_obj else "data"
                if rows is None or arr is None:
                    n_rows = 0 if rows is None else len(rows)
                    n_arr = 0 if arr is None else len(arr)
                    rec.check("C04.tiling", n_rows == 0 and n_arr == 0 or (rows is not None and int(np.sum(rows["Size"])) == n_arr), op=where, cls=kind, attr="index-without-data" if arr is None else "data-without-index",
                              detail=f"label {label!r}: {n_rows} index rows, {n_arr} stored values")
                    if rows is None:
                        continue
                    arr = np.zeros(0) if arr is None else arr
                order = np.argsort(rows["Start index"], kind="stable")
                pos, ok, why = 0, True, ""
                for r in rows[order]:
                    if int(r["Start index"]) != pos:
                        ok, why = False, "gap" if int(r["Start index"]) > pos else "overlap"
                        break
                    pos += int(r["Size"])
                if ok and pos != len(arr):
                    ok, why = False, "tail"
                rec.check("C04.tiling", ok, op=where, cls=kind, attr=why, detail=f"label {label!r}: index rows {[(int(r['Start index']), int(r['Size'])) for r in rows[order]]} do not tile the {len(arr)} stored values ({why})")
                keys = [(s(r["Object ID"]).strip("{}"), s(r["Data ID"]).strip("{}")) for r in rows]
                rec.check("C04.index-rows", len(keys) == len(set(keys)), op=where, cls=kind, attr="duplicate", detail=f"label {label!r}: duplicate index rows {[k for k in keys if keys.count(k) > 1][:2]}")
                for (oid, did), r in zip(keys, rows):
                    if oid not in live_holes:
                        rec.fail("C04.index-rows", op=where, cls=kind, attr="stale-hole", detail=f"label {label!r}: index row of removed / unknown hole {oid}")
                        continue
                    if is_obj:
                        continue
                    taint = "after-rename" if oid in self.tainted else ""
                    exp_uid = data_uid.get((oid, label))
                    rec.check("C04.index-rows", exp_uid == did, op=where, cls=kind, attr=taint or "stale-data", detail=f"label {label!r}: row (hole {self.m.holes[oid]['name']}, data {did}) but the hole's record maps {label!r} to {exp_uid}")
                # every live data set has its row with the right size and the right slice
                if not is_obj:
                    for u in live_holes:
                        if label not in self.m.names(u):
                            continue
                        v = [vv for _, nm, vv in self.m.all_data(u) if nm == label][0]
                        mine = [r for (oid, _), r in zip(keys, rows) if oid == u]
                        taint = "after-rename" if u in self.tainted else ""
                        if not mine:
                            rec.check("C04.index-rows", len(v) == 0, op=where, cls="data", attr=taint or "missing", detail=f"label {label!r}: no index row for hole {self.m.holes[u]['name']} ({len(v)} values in the model)")
                            continue
                        r = mine[0]
                        sl = np.asarray(arr[int(r["Start index"]): int(r["Start index"]) + int(r["Size"])])
                        if sl.dtype.kind == "f":
                            sl = np.where(np.isclose(sl, 1.175494351e-38, rtol=1e-6, atol=0), np.nan, sl.astype(float))
                        rec.check("C04.file-values", eq(sl, v), op=where, cls="data", attr=taint, detail=f"label {label!r} slice of hole {self.m.holes[u]['name']}: {short(repr(sl.tolist()), 160)}; model {short(repr(v.tolist()), 160)}")
            for u in live_holes:
                for nm in self.m.names(u):
                    v = [vv for _, n2, vv in self.m.all_data(u) if n2 == nm][0]
                    if nm not in labels and len(v) > 0:
                        rec.fail("C04.index-rows", op=where, cls="data", attr="after-rename" if u in self.tainted else "label-missing", detail=f"no Index/Data entry named {nm!r} for hole {self.m.holes[u]['name']}")
        self.closes += 1
        rec.see("closes-validated")

    # -- steps -------------------------------------------------------------------------------------------
    def refuse(self, kind, exc):
        if not exc_origin(exc)[0]:
            raise exc
        self.rec.see("refused:" + kind + ":" + type(exc).__name__)

    def step(self, kind):
        from geoh5py.objects import Drillhole

        rng, m, rec = self.rng, self.m, self.rec
        live = [u for u in m.holes if u not in self.tainted] or list(m.holes)
        via = rng.choice(["workspace", "parent"])
        if kind == "add_hole":
            i = len(m.holes) + len(self.removed)
            h = Drillhole.create(self.ws, parent=self.grp, name=f"h{i}", collar=[float(i), 0.0, 10.0], surveys=np.array([[0.0, 0.0, -90.0], [200.0 + i, 10.0, -80.0]]))
            m.holes[str(h.uid)] = {"name": f"h{i}", "tables": {}, "n_tables": 0}
            return True
        if not live:
            return False
        u = rng.choice(live)
        hm = m.holes[u]
        h = self.hole(u)
        if kind == "new_table":
            interval = rng.random() < 0.35
            sizes = [0, 1, 1, 2, 3, 5, 8] if self.case["profile"] == "zero" else [1, 2, 3, 5, 8, 13]
            n = rng.choice(sizes)
            k = hm["n_tables"]
            free = [p for p in self.pool(k) if p not in m.names(u)]
            if not free:
                return False
            nm = rng.choice(free)
            if self.plan is not None:  # every hole builds its k-th table with the same name and kind
                pg, interval = self.plan[k % len(self.plan)]
                if k >= len(self.plan):
                    pg = f"{pg}_{k // len(self.plan)}"
            else:
                pg = rng.choice(["assay", "lith", "geochem"]) if rng.random() < 0.7 else f"t{k}"
            if pg in hm["tables"]:
                pg = f"{pg}_{k}"
            while pg in hm["tables"]:  # e.g. the empty group a refused add left behind: never re-used as a new table
                pg += "x"
            if n == 0 and any(nloc(t) == 0 and t["kind"] == ("interval" if interval else "depth") for t in hm["tables"].values()):
                n = 1  # two zero-length tables of one hole are trivially collocated: the library files new data under the first
            base = 100.0 * (k + 1)
            dkind = kind_of_name(nm)
            vals = m.fresh(n, rng, kind=dkind)
            rec.see("data-kind:" + dkind)
            if n == 0:
                rec.see("zero-length-arrays")
            try:
                if interval:
                    ft = np.c_[base + np.arange(n), base + np.arange(n) + 0.5]
                    h.add_data({nm: {"from-to": ft, **spec_for(vals, dkind)}}, property_group=pg)
                else:
                    dep = base + np.arange(n) + 0.25
                    h.add_data({nm: {"depth": dep, **spec_for(vals, dkind)}}, property_group=pg)
            except Exception as exc:  # noqa: BLE001
                self.refuse(kind, exc)
                self.resync(u)
                return False
            hm["n_tables"] += 1
            # the library names the location data itself: read the names back from the new group
            grp = [p for p in h.property_groups if p.name == pg]
            if not grp:
                rec.fail("C04.values-live", op=kind, cls="property-groups", attr="", detail=f"table {pg!r} was not created on hole {hm['name']}")
                return True
            member = [self_name(h, x) for x in grp[0].properties]
            loc_names = [x for x in member if x != nm]
            loc = {}
            if interval:
                if len(loc_names) == 2:
                    loc = {loc_names[0]: ft[:, 0].copy(), loc_names[1]: ft[:, 1].copy()}
            elif len(loc_names) == 1:
                loc = {loc_names[0]: dep.copy()}
            if not loc:
                rec.fail("C04.values-live", op=kind, cls="property-groups", attr="members", detail=f"new table {pg!r} has members {member}")
            hm["tables"][pg] = {"kind": "interval" if interval else "depth", "loc": loc, "props": {nm: vals}, "k": k}
            return True
        tables = [pg for pg, t in hm["tables"].items() if t["loc"]]
        if kind == "add_to_table":
            if not tables:
                return False
            pg = rng.choice(tables)
            t = hm["tables"][pg]
            free = [p for p in self.pool(t.get("k", 0)) if p not in m.names(u)]
            if not free:
                return False
            n = nloc(t)
            nm = rng.choice(free)
            dkind = kind_of_name(nm)
            short_by = 1 if n > 1 and dkind == "float" and rng.random() < 0.25 else 0
            vals = m.fresh(n - short_by, rng, kind=dkind)
            rec.see("data-kind:" + dkind)
            try:
                h.add_data({nm: spec_for(vals, dkind)}, property_group=pg)
            except Exception as exc:  # noqa: BLE001
                self.refuse(kind, exc)
                self.resync(u)
                return False
            t["props"][nm] = np.r_[vals, np.full(short_by, np.nan)] if short_by else vals
            if short_by:
                rec.see("padded-values")
            return True
        props = [(pg, nm) for pg, t in hm["tables"].items() for nm in t["props"]]
        if kind == "update":
            if not props:
                return False
            locs = [(pg, nm) for pg, t in hm["tables"].items() for nm in t["loc"] if len(t["loc"][nm])]
            if locs and rng.random() < 0.2:
                # corrected depths: the location column of a table is re-assigned (same length, slightly shifted)
                pg, nm = rng.choice(locs)
                old = hm["tables"][pg]["loc"][nm]
                vals = (np.asarray(old, dtype=float) + 0.03125).astype("float32").astype(float)
                d = self.data(u, nm)
                try:
                    d.values = vals.copy()
                except Exception as exc:  # noqa: BLE001
                    self.refuse(kind, exc)
                    return False
                hm["tables"][pg]["loc"][nm] = vals
                rec.see("location-columns-reassigned")
                return True
            pg, nm = rng.choice(props)
            old = hm["tables"][pg]["props"][nm]
            vals = m.fresh(len(old), rng, kind=kind_of_values(old))
            d = self.data(u, nm)
            try:
                d.values = vals.copy()
            except Exception as exc:  # noqa: BLE001
                self.refuse(kind, exc)
                return False
            hm["tables"][pg]["props"][nm] = vals
            if rng.random() < 0.3:
                # an explicit save of the (already stored) hole, e.g. after an attribute edit: nothing else may change
                h.collar = [float(rng.randint(0, 9)), 1.0, 10.0]
                self.ws.save_entity(h)
                rec.see("explicit-saves-of-stored-holes")
            return True
        if kind == "retype":
            # a new data type for a stored data set whose values this session has not read: the values stay what they were
            floats = [(pg, nm) for pg, nm in props if kind_of_values(hm["tables"][pg]["props"][nm]) == "float"]
            if not floats:
                return False
            pg, nm = rng.choice(floats)
            d = self.data(u, nm)
            from geoh5py.data import DataType

            try:
                d.entity_type = DataType(self.ws, primitive_type=d.entity_type.primitive_type, name=f"type of {nm} v{self.accepted}")
            except Exception as exc:  # noqa: BLE001
                self.refuse(kind, exc)
                return False
            rec.see("types-swapped-on-stored-data")
            rec.see("op:retype")
            # the history ends here (values are judged now and from the closed file): what a re-typed concatenated data set does
            # to later operations is another matter (its new type is not stored: noted in DESIGN.md, not judged by C04)
            self.judge_values("C04.values-live", "retype")
            raise StopCase
        if kind == "rename":
            if not props:
                return False
            pg, nm = rng.choice(props)
            # the new name keeps the primitive type its prefix stands for (concatenated arrays are keyed by name across holes)
            dkind = kind_of_name(nm)
            cands = [p for p in self.pool(hm["tables"][pg].get("k", 0)) + [f"R{dkind[0]}{i}" for i in range(1, 4)] if kind_of_name(p) == dkind and p not in m.names(u)]
            if not cands:
                return False
            new = rng.choice(cands)
            d = self.data(u, nm)
            try:
                d.name = new
            except Exception as exc:  # noqa: BLE001
                self.refuse(kind, exc)
                return False
            t = hm["tables"][pg]
            t["props"] = {(new if k == nm else k): v for k, v in t["props"].items()}
            return True
        if kind == "rename_clash":
            # a rename onto a name the same hole already uses must be refused and must leave everything as it was
            if not props or len(m.names(u)) < 2:
                return False
            pg, nm = rng.choice(props)
            other = rng.choice(sorted(n for n in m.names(u) if n != nm))
            d = self.data(u, nm)
            try:
                d.name = other
            except Exception as exc:  # noqa: BLE001
                self.refuse(kind, exc)
                rec.see("refused-rename-clashes")
                return False
            rec.fail("C04.values-live", op=kind, cls="data-names", attr="clash-accepted", detail=f"hole {hm['name']}: data {nm!r} was renamed to {other!r}, a name the hole already uses")
            raise StopCase
        if kind == "rm_data":
            if not props:
                return False
            pg, nm = rng.choice(props)
            d = self.data(u, nm)
            try:
                if via == "workspace":
                    self.ws.remove_entity(d)
                else:
                    h.remove_children([d])
            except Exception as exc:  # noqa: BLE001
                self.refuse(kind, exc)
                return False
            del d
            del hm["tables"][pg]["props"][nm]
            if not hm["tables"][pg]["props"]:  # documented: "The property group is removed if only the depth or from/to data are left"
                del hm["tables"][pg]
                rec.see("table-removed-with-last-property")
            rec.see("via:" + via)
            return True
        if kind == "rm_pg":
            if not hm["tables"]:
                return False
            pg = rng.choice(sorted(hm["tables"]))
            grp = [p for p in (h.property_groups or []) if p.name == pg]
            if not grp:
                return False
            try:
                if via == "workspace":
                    self.ws.remove_entity(grp[0])
                else:
                    h.remove_children([grp[0]])
            except Exception as exc:  # noqa: BLE001
                self.refuse(kind, exc)
                self.resync(u)
                return False
            del grp
            del hm["tables"][pg]
            rec.see("via:" + via)
            return True
        if kind == "rm_hole":
            if len(m.holes) < 2 and rng.random() < 0.6:
                return False  # the last hole of the group goes too, less often
            if len(m.holes) == 1:
                rec.see("last-hole-removals")
            try:
                if via == "workspace":
                    self.ws.remove_entity(h)
                else:
                    self.grp.remove_children([h])
            except Exception as exc:  # noqa: BLE001
                self.refuse(kind, exc)
                return False
            del h
            del m.holes[u]
            self.removed.add(u)
            self.tainted.discard(u)
            rec.see("via:" + via)
            return True
        if kind == "copy_hole":
            try:
                new = h.copy(parent=self.grp, name=f"c{len(self.kinds)}")
            except Exception as exc:  # noqa: BLE001
                self.refuse(kind, exc)
                return False
            m.holes[str(new.uid)] = {"name": new.name, "n_tables": hm["n_tables"],
                                     "tables": {pg: {"kind": t["kind"], "k": t.get("k", 0), "loc": {k: v.copy() for k, v in t["loc"].items()}, "props": {k: v.copy() for k, v in t["props"].items()}} for pg, t in hm["tables"].items()}}
            if u in self.tainted:
                self.tainted.add(str(new.uid))
            return True
        if kind == "table_push":
            if not tables or self.tainted:
                return False
            pg = rng.choice(tables)
            members = {x: xm["tables"][pg] for x, xm in m.holes.items() if pg in xm["tables"]}
            if len({tuple(t["loc"]) for t in members.values()}) != 1:
                return False
            labels = {n for t in members.values() for n in list(t["loc"]) + list(t["props"])}
            if any(pg2 != pg and labels & (set(t2["loc"]) | set(t2["props"])) for xm in m.holes.values() for pg2, t2 in xm["tables"].items()):
                return False  # ambiguous label-keyed table: judged (and listed as a finding) by judge_table only
            if any(nloc(t) == 0 for t in members.values()):
                return False
            new = f"Push{len(self.kinds)}"
            try:
                tab = self.grp.drillholes_tables[pg]
                col = [s(x).strip("{}") for x in tab.depth_table["Drillhole"]]
            except Exception as exc:  # noqa: BLE001
                self.refuse(kind, exc)
                return False
            total = len(col)
            vals = m.fresh(total, rng, nan=False)
            try:
                tab.add_values_to_property_group(new, vals.copy())
            except Exception as exc:  # noqa: BLE001
                if not exc_origin(exc)[0]:
                    raise
                rec.fail("C04.table", op=kind, cls="push-raises", attr=type(exc).__name__, detail=f"add_values_to_property_group on an unambiguous table {pg!r} raised {type(exc).__name__}: {short(str(exc), 200)}")
                raise StopCase from exc
            order = []
            for x in col:
                if not order or order[-1] != x:
                    order.append(x)
            pos = 0
            for x in order:
                n = col.count(x)
                if x in members:
                    members[x]["props"][new] = vals[pos: pos + n]
                pos += n
            # the table object the user still holds shows the new column as it was handed over, row for row
            try:
                got = np.asarray(tab.depth_table_by_name(new))
                names = got.dtype.names or ()
                colv = np.asarray(got[new], dtype=float) if new in names else None
                rec.check("C04.table", colv is not None and eq(colv, vals), op=kind, cls="held-table", attr="column-after-push", detail=f"column {new!r} pushed as {short(repr(vals.tolist()), 120)}; the same table object now shows {None if colv is None else short(repr(colv.tolist()), 120)}")
            except Exception as exc:  # noqa: BLE001
                if not exc_origin(exc)[0]:
                    raise
                rec.see("held-table-read-refused:" + type(exc).__name__)
            return True
        if kind == "copy_group":
            from geoh5py.workspace import Workspace

            p2 = os.path.join(self.dir, f"copy{len(self.kinds)}.geoh5")
            try:
                with Workspace.create(p2, version=self.case["version"]) as w2:
                    g2 = self.grp.copy(parent=w2)
                    for u2, hm2 in m.holes.items():
                        if u2 in self.tainted:
                            continue
                        got = [c for c in g2.children if c.name == hm2["name"]]
                        rec.check("C04.copy", len(got) == 1, op=kind, cls="holes", attr="", detail=f"copied group has {len(got)} holes named {hm2['name']}")
                        if len(got) != 1:
                            continue
                        for pg, nm, v in m.all_data(u2):
                            d = [x for x in got[0].get_data(nm) if x is not None]
                            rec.check("C04.copy", bool(d) and eq(d[0].values, v), op=kind, cls="values", attr="", detail=f"copy of hole {hm2['name']} data {nm!r}: {short(repr(d[0].values.tolist() if d and d[0].values is not None else None), 160)}; source model {short(repr(v.tolist()), 160)}")
                    # edit the copy (update, rename, remove): nothing of it may reach the source, which stays open
                    for hcopy in list(g2.children):
                        datas = [c for c in hcopy.children if hasattr(c, "values") and not c.name.upper().startswith(("DEPTH", "FROM", "TO"))]
                        if not datas:
                            continue
                        dd = rng.choice(datas)
                        how = rng.choice(["update", "remove", "rename"])
                        try:
                            if how == "update" and dd.values is not None and len(dd.values):
                                dd.values = m.fresh(len(dd.values), rng, kind=kind_of_values(dd.values))
                            elif how == "remove":
                                w2.remove_entity(dd)
                            elif how == "rename":
                                dd.name = f"R{kind_of_values(dd.values)[0]}9" if dd.values is not None and len(dd.values) else dd.name
                            rec.see("edits-in-the-copy")
                        except Exception as exc:  # noqa: BLE001
                            self.refuse("copy-edit:" + how, exc)
                        dd = None
            except Exception as exc:  # noqa: BLE001
                self.refuse(kind, exc)
            finally:
                if os.path.exists(p2):
                    os.remove(p2)
            return False
        if kind == "reopen":
            self.close_and_judge("reopen")
            self.open()
            return False
        raise KeyError(kind)

    def resync(self, u):
        """A refused add may leave the (empty) property group it created first: the model follows, and counts it."""
        h = self.hole(u)
        hm = self.m.holes[u]
        for p in h.property_groups or []:
            if p.name not in hm["tables"] and not p.properties:
                hm["tables"][p.name] = {"kind": "empty", "loc": {}, "props": {}}
                self.rec.see("refused-add-left-empty-group")

    def open(self):
        from geoh5py.workspace import Workspace

        self.ws = Workspace(self.path, mode="r+")
        self.grp = self.ws.get_entity(self.grp_uid)[0]

    def close_and_judge(self, where):
        from geoh5py.workspace import Workspace

        self.grp = None
        self.ws.close()
        gc.collect()
        self.judge_file(where)
        self.ws = Workspace(self.path, mode="r")
        self.grp = self.ws.get_entity(self.grp_uid)[0]
        self.judge_values("C04.values-reopen", where)
        self.judge_table(where + ":fresh")
        self.grp = None
        self.ws.close()

    def run(self):
        from geoh5py.groups import DrillholeGroup
        from geoh5py.workspace import Workspace

        rec, rng = self.rec, self.rng
        rec.see(f"version:{self.case['version']}")
        self.ws = Workspace.create(self.path, version=self.case["version"])
        self.grp = DrillholeGroup.create(self.ws, name="DH")
        self.grp_uid = self.grp.uid
        for _ in range(rng.randint(2, 4)):
            self.step("add_hole")
        for _ in range(rng.randint(2, 5)):
            self.step("new_table")
        w = WEIGHTS[self.case["profile"]]
        kinds, weights = list(w), list(w.values())
        for _ in range(self.case["n_ops"]):
            kind = rng.choices(kinds, weights)[0]
            n_fail = len(rec.failures)
            if TRACE:
                print("STEP", kind, flush=True)
            try:
                ok = self.step(kind)
            except StopCase:
                break
            except Exception as exc:  # noqa: BLE001
                if not exc_origin(exc)[0]:
                    raise
                rec.fail("C04.step-raises", op=kind, cls=type(exc).__name__, attr="after-rename" if self.tainted else "", detail=f"{kind} raised {type(exc).__name__}: {short(str(exc), 300)}")
                break
            rec.see("steps")
            if ok:
                self.accepted += 1
                self.kinds.append(kind)
                rec.see("op:" + kind)
            if kind != "reopen":
                self.judge_values("C04.values-live", kind)
                if ok and kind in ("new_table", "add_to_table", "update", "rm_data", "rm_pg", "rm_hole", "table_push", "copy_hole"):
                    self.judge_table(kind)
            if TRACE:
                print("   ->", ok, {hm["name"]: {pg: (list(t["loc"]), list(t["props"])) for pg, t in hm["tables"].items()} for hm in self.m.holes.values()}, flush=True)
                for f in rec.failures[n_fail:]:
                    print("   FAIL", f["sig"], f["detail"][:300], flush=True)
            if len(rec.failures) > n_fail + 12:
                break
        self.close_and_judge("final")
        rec.nontrivial = self.accepted >= 4 and self.closes >= 1
        rec.shape = [self.case["version"], self.case["profile"], self.kinds]
        rec.sample = {"version": self.case["version"], "profile": self.case["profile"], "steps": self.kinds[:14], "holes": len(self.m.holes)}


class StopCase(Exception):
    """The model can no longer follow the library (a failure was already recorded)."""


def self_name(hole, uid):
    d = [x for x in hole.get_data(uid) if x is not None]
    return d[0].name if d else f"<{uid}>"


def run_shared_types(case, rec):
    """Several drillhole groups in one workspace, and logs of different holes that share one data type (a reference table used
    on purpose for every hole, a float type with units).  After a re-open one hole's log is read and removed, the user's
    reference is dropped, the workspace lists its types (any later sweep): every other hole's stored, not-yet-loaded log still
    reads back as written - values, type, reference table - in the same session and after another re-open."""
    import tempfile

    from geoh5py.groups import ContainerGroup, DrillholeGroup
    from geoh5py.objects import Drillhole
    from geoh5py.workspace import Workspace

    rng = random.Random(case["seed"])
    d = tempfile.mkdtemp(prefix="gvm_c04s_")
    path = os.path.join(d, "s.geoh5")
    vmap = {1: "granite", 2: "basalt", 3: "schist"}
    n_groups, n_holes = 2 + case["seed"] % 2, 2 + (case["seed"] // 2) % 2
    expect = {}  # (group, hole) -> {"lith": (values, type uid), "au": (values, type uid)}
    ws = None
    try:
        ws = Workspace.create(path, version=case["version"])
        holder = ContainerGroup.create(ws, name="campaigns") if case["seed"] % 3 == 0 else None
        for g in range(n_groups):
            grp = DrillholeGroup.create(ws, name=f"G{g}", **({"parent": holder} if holder is not None and g else {}))
            lith_type = au_type = None
            for i in range(n_holes):
                n = 3 + i
                hole = Drillhole.create(ws, parent=grp, name=f"G{g}_H{i}", collar=[float(i), float(g), 0.0])
                ft = np.c_[np.arange(n, dtype=float), np.arange(n) + 1.0]
                lv = np.array([rng.randint(1, 3) for _ in range(n)], dtype="uint32")
                av = np.arange(n) + 10.0 * i + 100.0 * g
                la = {"values": lv, "from-to": ft}
                la.update({"type": "referenced", "value_map": dict(vmap)} if lith_type is None else {"entity_type": lith_type})
                aa = {"values": av, "from-to": ft}
                if au_type is not None:
                    aa["entity_type"] = au_type
                lith = hole.add_data({"lith": la}, property_group="geology")
                au = hole.add_data({"au": aa}, property_group="geology")
                lith_type, au_type = lith.entity_type, au.entity_type
                expect[(g, i)] = {"lith": (lv.copy(), lith_type.uid), "au": (av.copy(), au_type.uid)}
            au_type.units = "g/t"
        del grp, hole, lith, au, lith_type, au_type, holder
        ws.close()
        rec.see("workspaces-with-several-drillhole-groups")

        def judge(w, where, removed):
            for (g, i), logs in expect.items():
                hole = w.get_entity(f"G{g}_H{i}")[0]
                for nm, (vals, tuid) in logs.items():
                    if (g, i, nm) in removed:
                        rec.check("C04.values-" + where, nm not in hole.get_data_list(), op="shared-type:remove", cls="removed", attr=nm, detail=f"{nm} of G{g}_H{i} was removed and is still listed")
                        continue
                    try:
                        dd = hole.get_data(nm)[0]
                        got = None if dd is None else np.asarray(dd.values)
                        tu = None if dd is None else dd.entity_type.uid
                        vm = None
                        if dd is not None and nm == "lith":
                            vm = {k: v for k, v in dict(dd.entity_type.value_map()).items() if k != 0}
                        ok = got is not None and len(got) == len(vals) and bool(np.all(got == vals)) and tu == tuid and (nm != "lith" or vm == vmap)
                        detail = f"values {short(str(None if got is None else got.tolist()))} (written {short(str(vals.tolist()))}), type {tu} (written {tuid}), reference table {vm}"
                    except Exception as exc:  # noqa: BLE001
                        if not exc_origin(exc)[0]:
                            raise
                        ok, detail = False, f"reading raises {type(exc).__name__}: {short(str(exc), 160)}"
                    rec.check("C04.values-" + where, ok, op="shared-type:remove", cls="other-hole" if (g, i) not in {(r[0], r[1]) for r in removed} else "same-hole", attr=nm,
                              detail=f"G{g}_H{i}.{nm} after removing {sorted(removed)} from other holes: {detail}")

        removed = set()
        order = [(g, i) for g in range(n_groups) for i in range(n_holes - 1)]
        rng.shuffle(order)
        for g, i in order[: 1 + case["seed"] % 3]:
            nm = ["lith", "au"][(case["seed"] + g + i) % 2]
            ws = Workspace(path, mode="r+")
            hole = ws.get_entity(f"G{g}_H{i}")[0]
            dd = hole.get_data(nm)[0]
            if (case["seed"] + i) % 2:
                _ = dd.values
            ws.remove_entity(dd)
            removed.add((g, i, nm))
            del dd, hole
            gc.collect()
            _ = ws.types
            _ = ws.data
            judge(ws, "live", removed)
            ws.close()
            rec.see("closes-validated")
            ws = Workspace(path, mode="r")
            judge(ws, "reopen", removed)
            ws.close()
            rec.see("removals-next-to-shared-types")
        rec.nontrivial = True
        rec.shape = ["shared-types", case["version"], n_groups, n_holes, sorted(removed)]
        rec.sample = {"lane": "shared-types", "groups": n_groups, "holes": n_holes, "removed": sorted(removed)}
    finally:
        try:
            if ws is not None:
                ws.close()
        except Exception:  # noqa: BLE001
            pass
        shutil.rmtree(d, ignore_errors=True)
        gc.collect()


def run_case(case, rec):
    warnings.simplefilter("ignore")
    if case.get("kind") == "shared_types":
        return run_shared_types(case, rec)
    rng = random.Random(case["seed"])
    drv = Driver(case, rec, rng)
    try:
        drv.run()
    finally:
        try:
            drv.ws.close()
        except Exception:  # noqa: BLE001
            pass
        shutil.rmtree(drv.dir, ignore_errors=True)
        gc.collect()
