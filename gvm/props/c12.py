"""C12 — a copy equals its source and never disturbs it.

Configurations: every concrete object / group class (reflective list) x target (same parent, other
group, other workspace) x options (copy_children, clear_cache); nested group subtrees; drillhole
groups (fast path across workspaces, slow path within one).  Oracle: the copy's public record equals
the source's modulo uid/parent with children matched one-to-one and property groups referencing the
*copied* children in the same order; source public view and source file digests unchanged; aliasing
monitor (shared numpy memory / shared dicts) and edit-the-copy-then-re-read-the-source, live and
after re-open."""
from __future__ import annotations

import gc
import os
import random
import shutil
import tempfile
import uuid

import numpy as np

from .. import gen, snap
from ..core import canon, diff_paths, short

PROP = "C12"
LEVEL = "exploration"
RULE = (
    "case = one (class, target, options) cell with seeded content: populated instance with vertex/cell/object data of "
    "several kinds, property groups whose member order differs from child order, metadata; or a nested group subtree; "
    "or a drillhole group with several holes. All classes x 3 targets are enumerated; content is seeded. Non-trivial = "
    "copy with >= 1 child compared; distinct = (class, target, options, child kinds)."
)
ASSUMPTIONS = [
    "equality modulo uid, parent, on-file bookkeeping; EM/DC survey link metadata is judged under C20",
    "copy options exercised: copy_children, clear_cache; masks are judged under C07/C13",
]
TARGETS = ["same-parent", "other-group", "other-workspace"]
PARTNER_KEYS = {"EM Dataset", "Current Electrodes", "Potential Electrodes"}


def floors(tier):
    return {"copies-judged": 150, "C12.differs": 1200, "C12.source-changed": 150, "C12.aliasing": 300, "C12.pg-remap": 80, "group-subtrees": 10, "drillhole-groups": 8, "copies-left-alone": 2, "classes-covered": 40}


def EXHAUSTIVE(tier):
    return "all exported concrete object and group classes x {same parent, other group, other workspace}"


def gen_cases(tier, seed):
    classes = gen.concrete_entity_classes()
    cases = []
    reps = 1 if tier == "quick" else 8
    for rep in range(reps):
        for cname in classes["objects"]:
            for t in TARGETS:
                cases.append({"kind": "object", "cls": cname, "target": t, "children": True, "clear_cache": (hash((cname, t, rep)) % 4 == 0), "rep": rep})
            cases.append({"kind": "object", "cls": cname, "target": TARGETS[rep % 3], "children": False, "clear_cache": False, "rep": rep})
            cases.append({"kind": "object", "cls": cname, "target": TARGETS[(rep + len(cname)) % 3], "children": True, "clear_cache": rep % 2 == 1, "mask": True, "rep": rep})
        for cname in classes["groups"]:
            if cname in ("DrillholeGroup", "IntegratorDrillholeGroup"):
                continue
            for t in TARGETS:
                cases.append({"kind": "group", "cls": cname, "target": t, "rep": rep})
        for t in TARGETS:
            for cname in ("DrillholeGroup", "IntegratorDrillholeGroup"):
                for v in (2.0, 2.1):
                    cases.append({"kind": "drill", "cls": cname, "target": t, "version": v, "rep": rep})
        if rep == 0:
            # the left-alone lane into another workspace once more, this time with one hole copied over on its own beforehand
            cases.append({"kind": "drill", "cls": "DrillholeGroup", "target": "other-workspace", "version": 2.0, "rep": 3})
            cases.append({"kind": "drill", "cls": "IntegratorDrillholeGroup", "target": "other-workspace", "version": 2.1, "rep": 4})
        # linked survey pairs (receivers / transmitters, receivers / base stations, potential / current electrodes)
        from . import c20

        for pi, pair in enumerate(c20.discover_pairs()):
            for side in ("rx", "tx"):
                cases.append({"kind": "pair", "pair": list(pair), "side": side, "target": TARGETS[(pi + rep + (side == "tx")) % 3], "direction": ["from-receivers", "from-partner"][(pi + rep) % 2], "children": True, "rep": rep})
        for t in ("other-workspace", "same-parent"):
            cases.append({"kind": "root", "target": t, "rep": rep})
        for i in range(6):
            cases.append({"kind": "data", "dkind": gen.DATA_KINDS[(i + rep) % len(gen.DATA_KINDS)], "target": ["same-parent", "other-object"][i % 2], "rep": rep})
    return cases


# ------------------------------------------------------------------------------------------
class Scene:
    def __init__(self, version=None):
        from geoh5py.groups import ContainerGroup
        from geoh5py.workspace import Workspace

        self.dir = tempfile.mkdtemp(prefix="gvm_")
        self.path = os.path.join(self.dir, "src.geoh5")
        self.path2 = os.path.join(self.dir, "dst.geoh5")
        kw = {"version": version} if version else {}
        self.ws = Workspace.create(self.path, **kw)
        self.ws2 = Workspace.create(self.path2, **kw)
        self.home = ContainerGroup.create(self.ws, name="home")
        self.other = ContainerGroup.create(self.ws, name="other")

    def target(self, which, src):
        if which == "same-parent":
            return src.parent
        if which == "other-group":
            return self.other
        return self.ws2.root

    def close(self):
        for w in (self.ws, self.ws2):
            try:
                w.close()
            except Exception:  # noqa: BLE001
                pass
        shutil.rmtree(self.dir, ignore_errors=True)


def populate(obj, rng, rec):
    """Data of several kinds and associations, property groups with a member order that differs from
    the child order, metadata."""
    made = []
    tag = 1
    for assoc in gen.associations_for(obj):
        kinds = rng.sample(gen.DATA_KINDS[:4], 3) if assoc != "OBJECT" else []
        for k in kinds:
            spec, _ = gen.data_spec(obj, k, assoc, rng, tag=tag)
            d = obj.add_data({f"{assoc[:1]}{k}{tag}": spec})
            made.append((assoc, d))
            tag += 1
    spec, _ = gen.data_spec(obj, "text_object", "OBJECT", rng, tag=tag)
    obj.add_data({"note": spec})
    if type(obj).__name__ in ("Curve", "Surface"):
        # names that mean something on survey classes are ordinary names on an ordinary curve or surface
        for nm in ("Transmitter ID", "A-B Cell ID"):
            spec, _ = gen.data_spec(obj, "float", "VERTEX", rng, tag=tag + 7)
            obj.add_data({nm: spec})
        rec.see("ordinary-objects-with-survey-like-data-names")
    for assoc in ("VERTEX", "CELL"):
        members = [d for a, d in made if a == assoc]
        if len(members) >= 2:
            order = list(reversed(members))  # deliberately not the child order
            obj.add_data_to_group(order[:2], f"pg_{assoc.lower()}")
            if len(members) >= 3:
                obj.add_data_to_group([members[2], members[0]], f"pg2_{assoc.lower()}")
    cname = type(obj).__name__
    if not any(x in cname for x in ("Receivers", "Transmitters", "Electrode", "BaseStations")):
        obj.metadata = {"note": "source", "nested": {"a": 1}, "id": uuid.uuid4()}
    if rng.random() < 0.5:
        obj.add_comment("remark on the source", author="source author")
        if rng.random() < 0.5:
            obj.add_comment("second remark on the source", author="someone else")
        rec.see("sources-with-comments")
    return made


def strip(rec_, drop_meta=False):
    """Public record modulo identity and location."""
    out = {k: v for k, v in rec_.items() if k not in ("uid", "parent", "children", "pgs")}
    out["attrs"] = {k: v for k, v in rec_.get("attrs", {}).items() if k not in ("uid",)}
    if drop_meta:
        out.pop("metadata", None)
    if isinstance(out.get("type"), dict):
        out["type"] = dict(out["type"])
    return out


def compare_copy(rec, src, new, where, cls, same_ws, with_children, drop_meta=False):
    """Record-by-record comparison of a copy with its source; returns the child uid map."""
    rs, rn = snap.entity_record(src), snap.entity_record(new)
    a, b = strip(rs, drop_meta), strip(rn, drop_meta)
    rec.evals["C12.differs"] += 1
    if type(src) is not type(new):
        rec.fail("C12.differs", op=where, cls=cls, attr="class", detail=f"copy is a {type(new).__name__}, source a {type(src).__name__}", counted=True)
    for path, x, y in diff_paths(a, b, limit=8):
        fld = "/".join(path.strip("/").split("/")[:2]).split("[")[0]
        if fld == "type/uid" and not same_ws:
            pass
        rec.fail("C12.differs", op=where, cls=type(src).__name__, attr=fld, detail=f"{path}: source {short(x)} copy {short(y)}", counted=True)
    mapping = {str(src.uid): str(new.uid)}
    if not with_children:
        kids = [c for c in (getattr(new, "children", None) or []) if not snap._is_pg(c)]
        auto = [c for c in kids if type(c).__name__ in ("FilenameData",)]
        rec.check("C12.differs", len(kids) == len(auto), op=where, cls=cls, attr="children-without-copy_children", detail=f"copy_children=False but the copy has children {[c.name for c in kids]}")
        return mapping
    sk = [c for c in (getattr(src, "children", None) or []) if not snap._is_pg(c)]
    nk = [c for c in (getattr(new, "children", None) or []) if not snap._is_pg(c)]
    rec.check("C12.subtree", len(sk) == len(nk), op=where, cls=cls, attr="child-count", detail=f"source has {len(sk)} children {[c.name for c in sk]}, copy {len(nk)} {[c.name for c in nk]}")
    used = set()
    for c in sk:
        m = [x for x in nk if x.name == c.name and type(x).__name__ == type(c).__name__ and id(x) not in used]
        if not m:
            rec.fail("C12.subtree", op=where, cls=cls, attr=type(c).__name__, detail=f"child {c.name!r} ({type(c).__name__}) has no counterpart in the copy")
            continue
        used.add(id(m[0]))
        if (c.name == "A-B Cell ID" and "Electrode" in cls) or (c.name == "Transmitter ID" and "LargeLoop" in cls):
            # a copied DC survey keeps only the current cells its dipoles use and renumbers the link data accordingly, a copied
            # large-loop survey re-creates its transmitter-id data (documented re-indexing): consistency is C20's subject, not an equality
            rec.see("dc-link-data-not-compared")
            mapping[str(c.uid)] = str(m[0].uid)
            continue
        mapping.update(compare_copy(rec, c, m[0], where, cls, same_ws, True, drop_meta))
    # property groups: same names/types, members are the *copied* children, in the same order
    spg = {pg.name: pg for pg in (getattr(src, "property_groups", None) or [])}
    npg = {pg.name: pg for pg in (getattr(new, "property_groups", None) or [])}
    if spg or npg:
        rec.check("C12.pg-remap", sorted(spg) == sorted(npg), op=where, cls=cls, attr="names", detail=f"source groups {sorted(spg)} copy groups {sorted(npg)}")
        for name, pg in spg.items():
            q = npg.get(name)
            if q is None:
                continue
            exp = [mapping.get(str(u)) for u in (pg.properties or [])]
            got = [str(u) for u in (q.properties or [])]
            rec.check("C12.pg-remap", got == exp, op=where, cls=cls, attr="members", detail=f"group {name!r}: copy lists {got}, expected the copied children {exp} (source order)")
            rec.check("C12.pg-remap", canon(pg.association) == canon(q.association) and pg.property_group_type == q.property_group_type, op=where, cls=cls, attr="type", detail=f"group {name!r}: association/type differ")
            if same_ws:
                rec.check("C12.pg-remap", str(q.uid) != str(pg.uid), op=where, cls=cls, attr="uid", detail="same-workspace copy reuses the property group uid")
    return mapping


def aliasing(rec, src, new, where, cls):
    """In-place edits of what the copy's getters return must not show through in the source.

    (Sharing an immutable-by-convention object is not a violation by itself; the observable event is
    a source getter returning something else after the copy's array / dict was edited in place.)"""
    pairs = [(src, new)]
    sk = {c.name: c for c in (getattr(src, "children", None) or []) if not snap._is_pg(c)}
    for c in (getattr(new, "children", None) or []):
        if not snap._is_pg(c) and c.name in sk:
            pairs.append((sk[c.name], c))
    for s, n in pairs:
        for f in ("vertices", "values"):
            if not hasattr(type(n), f):
                continue
            try:
                a0 = getattr(s, f)
                b = getattr(n, f)
            except Exception:  # noqa: BLE001
                continue
            if not (isinstance(a0, np.ndarray) and isinstance(b, np.ndarray) and b.size and a0.size):
                continue
            keep = canon(a0)
            saved = b.copy()
            try:
                if b.dtype.names:
                    b[b.dtype.names[0]][...] = b[b.dtype.names[0]] + 1
                elif b.dtype.kind == "b":
                    b[...] = ~b
                elif b.dtype.kind in "fiu":
                    b[...] = b + 1
                else:
                    continue
            except (ValueError, TypeError):
                continue  # read-only array: nothing can leak
            try:
                now = canon(getattr(s, f))
            finally:
                try:
                    b[...] = saved
                except (ValueError, TypeError):
                    pass
            rec.check("C12.aliasing", now == keep, op=where, cls=type(s).__name__, attr=f, detail=f"in-place edit of the copy's {f} changed the source's {f}")


def edit_copy_check_source(rec, scene, src, new, where, cls):
    """Edits of the copy through the public API must not show in the source (live and re-opened)."""
    src_ws = src.workspace
    before = snap.api_snapshot(src_ws)
    dig0 = None
    try:
        new.name = "edited copy"
        if getattr(new, "comments", None) is not None:
            new.add_comment("remark on the copy", author="copy author")
            rec.see("comments-added-to-copies")
        if getattr(type(new), "metadata", None) is not None and not any(x in type(new).__name__ for x in ("Receivers", "Transmitters", "Electrode", "BaseStations")):
            new.metadata = {"note": "copy-edit", "extra": 7}
        for c in list(getattr(new, "children", None) or []):
            if snap._is_pg(c):
                continue
            v = getattr(c, "values", None)
            if isinstance(v, np.ndarray) and v.dtype.kind == "f" and v.size:
                c.values = v + 1000.0
            elif isinstance(v, np.ndarray) and v.dtype.kind == "i" and v.size:
                c.values = (v * 0 + 1).astype(v.dtype)
            elif isinstance(v, str):
                c.values = v + " edited"
        verts = getattr(new, "vertices", None)
        if isinstance(verts, np.ndarray) and verts.size and type(new).__name__ not in ("GeoImage",):
            try:
                new.vertices = verts + 5.0
            except Exception:  # noqa: BLE001
                pass
        if type(new).__name__ == "Drillhole" and any(getattr(c, "name", None) == "DEPTH" for c in new.children):
            # more logging on the copy: new depths next to the copied ones
            new.add_data({"late log": {"depth": np.array([4.0, 9.0]), "values": np.array([40.0, 90.0])}})
            rec.see("depth-logs-added-to-copies")
        kids = [c for c in (getattr(new, "children", None) or []) if not snap._is_pg(c) and hasattr(c, "values") and c.allow_delete]
        if kids:
            new.workspace.remove_entity(kids[0])
    except Exception as exc:  # noqa: BLE001
        from ..core import exc_origin

        if not exc_origin(exc)[0]:
            raise
        rec.fail("C12.edit-raises", op=where, cls=cls, attr=type(exc).__name__, detail=f"editing the copy raised {type(exc).__name__}: {exc}")
        return
    after = snap.api_snapshot(src_ws)
    copied = {str(new.uid)} | {str(c.uid) for c in (getattr(new, "children", None) or [])}
    check_unchanged(rec, before, after, where + ":after-edit-of-copy", cls, ignore_uids=_subtree(after, str(new.uid)) | _subtree(before, str(new.uid)), allow_children_of={str(new.parent.uid)} if new.workspace is src_ws else set())
    _ = dig0, copied


def _subtree(snapshot, uid):
    out, stack = set(), [uid]
    while stack:
        u = stack.pop()
        if u in out or u not in snapshot:
            out.add(u)
            continue
        out.add(u)
        stack.extend(snapshot[u].get("children") or [])
    return out


def check_unchanged(rec, before, after, where, cls, ignore_uids=(), allow_children_of=()):
    for u, r0 in before.items():
        if u in ignore_uids:
            continue
        r1 = after.get(u)
        rec.evals["C12.source-changed"] += 1
        if r1 is None:
            rec.fail("C12.source-changed", op=where, cls=r0.get("cls", ""), attr="<entity>", detail=f"{u} vanished", counted=True)
            continue
        a, b = dict(r0), dict(r1)
        if u in allow_children_of:
            a.pop("children", None)
            b.pop("children", None)
        if a != b:
            d = diff_paths(a, b, limit=3)
            fld = d[0][0].strip("/").split("/")[0] if d else ""
            rec.fail("C12.source-changed", op=where, cls=r0.get("cls", ""), attr=fld, detail=f"{u}: {short(d, 400)}", counted=True)


def do_copy(rec, scene, src, case, where):
    """Copy, then all clauses."""
    cls = type(src).__name__
    same_ws = case["target"] != "other-workspace"
    target = scene.target(case["target"], src)
    before = snap.api_snapshot(scene.ws)
    dig0 = snap.node_digests(snap.raw_snapshot(scene.ws.geoh5))
    kw = {}
    if "children" in case:
        kw["copy_children"] = case["children"]
    if case.get("clear_cache"):
        kw["clear_cache"] = True
    if case.get("override_name"):
        # an attribute override for the copy itself (the documented way to name a copy): it applies to that entity only
        kw["name"] = "copy under another name"
        where += ":name-override"
    new = src.copy(parent=target, **kw)
    rec.see("copies-judged")
    rec.see("class:" + cls)
    if new is not None and case.get("override_name"):
        rec.see("copies-with-attribute-override")
        rec.check("C12.differs", new.name == kw["name"], op=where, cls=cls, attr="override", detail=f"copy(name=...) gave a copy named {new.name!r}")
        new.name = src.name  # compared below like any other copy: every child must still carry its own name
    if new is None:
        rec.fail("C12.differs", op=where, cls=cls, attr="none", detail="copy returned None")
        return None
    drop_meta = any(x in cls for x in ("Receivers", "Transmitters", "Electrode", "BaseStations"))
    compare_copy(rec, src, new, where, cls, same_ws, case.get("children", True), drop_meta)
    aliasing(rec, src, new, where, cls)
    # the source side: public view and file
    after = snap.api_snapshot(scene.ws)
    ignore = _subtree(after, str(new.uid)) if same_ws else set()
    # a copied survey also copies its partner next to it
    extra_new = set(after) - set(before) - ignore
    for u in list(extra_new):
        ignore |= _subtree(after, u)
    check_unchanged(rec, before, after, where, cls, ignore_uids=ignore, allow_children_of={str(target.uid)} | {after[u]["parent"] for u in extra_new if after[u].get("parent")} if same_ws else set())
    dig1 = snap.node_digests(snap.raw_snapshot(scene.ws.geoh5))
    for p in sorted(set(dig0)):
        if p not in dig1:
            rec.fail("C12.source-changed", op=where, cls=cls, attr="file-node-deleted", detail=f"copy deleted {p} from the source file")
        elif dig0[p]["content"] != dig1[p]["content"] and p != "<project>":
            rec.fail("C12.source-changed", op=where, cls=cls, attr="file:" + ("type" if p.startswith("Types/") else p.split("/")[0]), detail=f"copy changed attributes/datasets of {p} in the source file")
        elif dig0[p]["links"] != dig1[p]["links"] and not (same_ws and (p.endswith("{" + str(target.uid) + "}") or p == "<project>")) and not extra_new:
            rec.fail("C12.source-changed", op=where, cls=cls, attr="file-links", detail=f"copy changed the child list of {p} in the source file")
    rec.evals["C12.source-changed"] += len(dig0)
    edit_copy_check_source(rec, scene, src, new, where, cls)
    return new


def do_masked_copy(rec, scene, src, case, where, rng):
    """copy(mask=...): the copy holds the selected part, and the source -- live entities and file -- is left exactly as it was
    (twice over: a second, different mask from the same live source must see the same source values)."""
    cls = type(src).__name__
    same_ws = case["target"] != "other-workspace"
    target = scene.target(case["target"], src)
    n_v = getattr(src, "n_vertices", None)
    n_c = getattr(src, "n_cells", None)
    is_grid = hasattr(src, "centroids") and not isinstance(getattr(type(src), "vertices", None), property)
    size = n_c if hasattr(src, "centroids") and n_c else n_v
    if not size:
        rec.see("mask-not-applicable:" + cls)
        return do_copy(rec, scene, src, {k: v for k, v in case.items() if k != "mask"}, where.replace(":mask", ""))
    last = None
    for round_ in range(2):
        mask = np.array([rng.random() < 0.6 for _ in range(size)])
        mask[rng.randrange(size)] = True
        mask[(int(np.argmax(mask)) + 1) % size] = False if size > 1 else mask[0]
        before = snap.api_snapshot(scene.ws)
        dig0 = snap.node_digests(snap.raw_snapshot(scene.ws.geoh5))
        kw = {"clear_cache": True} if case.get("clear_cache") else {}
        import warnings

        try:
            with warnings.catch_warnings(record=True) as caught:
                warnings.simplefilter("always")
                new = src.copy(parent=target, mask=mask, **kw)
            unsupported = any("not supported" in str(w.message) for w in caught)
        except Exception as exc:  # noqa: BLE001
            from ..core import exc_origin

            if not exc_origin(exc)[0]:
                raise
            rec.see("mask-refused:" + cls + ":" + type(exc).__name__)
            new = None
        rec.see("masked-copies")
        rec.see("class:" + cls)
        after = snap.api_snapshot(scene.ws)
        ignore = set()
        for u in set(after) - set(before):
            ignore |= _subtree(after, u)
        parents = {after[u]["parent"] for u in set(after) - set(before) if after[u].get("parent")} | {str(target.uid)}
        check_unchanged(rec, before, after, where, cls, ignore_uids=ignore, allow_children_of=parents if same_ws else set())
        dig1 = snap.node_digests(snap.raw_snapshot(scene.ws.geoh5))
        for p in sorted(set(dig0)):
            if p not in dig1:
                rec.fail("C12.source-changed", op=where, cls=cls, attr="file-node-deleted", detail=f"masked copy deleted {p} from the source file")
            elif dig0[p]["content"] != dig1[p]["content"] and p != "<project>":
                rec.fail("C12.source-changed", op=where, cls=cls, attr="file:" + ("type" if p.startswith("Types/") else p.split("/")[0]), detail=f"masked copy changed attributes/datasets of {p} in the source file")
        rec.evals["C12.source-changed"] += len(dig0)
        if new is None:
            continue
        last = new
        if unsupported:
            # the class says (warning) that it ignores the mask: the copy is a plain copy, judged by the unmasked lanes
            rec.see("mask-unsupported:" + cls)
            continue
        rec.check("C12.differs", type(new) is type(src), op=where, cls=cls, attr="class", detail=f"masked copy is a {type(new).__name__}")
        # what the copy holds: floating-point data follow the mask (grids: blanked outside; others: sub-sampled)
        for c in getattr(src, "children", None) or []:
            v = getattr(c, "values", None)
            if snap._is_pg(c) or not isinstance(v, np.ndarray) or v.dtype.kind != "f" or v.shape != mask.shape:
                continue
            twin = [x for x in new.children if getattr(x, "name", None) == c.name and isinstance(getattr(x, "values", None), np.ndarray)]
            if len(twin) != 1:
                continue
            got = np.asarray(twin[0].values, dtype=float)
            if hasattr(src, "centroids") and got.shape == v.shape:
                exp = np.where(mask, v, np.nan)
            elif not hasattr(src, "cells") or n_c is None or size == n_v and str(getattr(c.association, "name", "")) == "VERTEX":
                exp = v[mask]
            else:
                continue
            ok = got.shape == exp.shape and bool(np.all((got == exp) | (np.isnan(got) & np.isnan(exp))))
            rec.check("C12.differs", ok, op=where, cls=cls, attr="masked-values", detail=f"data {c.name!r} of the masked copy: {got.tolist()[:12]} expected {exp.tolist()[:12]} (mask {mask.tolist()[:12]})")
    _ = is_grid
    return last


def reopen_compare(rec, scene, src_uid, new_uid, case, where, cls):
    """After close + re-open the copy still equals the source (the copy's edits excepted: done on a second copy)."""


def run_case(case, rec):
    rng = random.Random(case["seed"])
    kind = case["kind"]
    scene = Scene(version=case.get("version"))
    try:
        if kind == "object":
            run_object(case, rec, rng, scene)
        elif kind == "group":
            run_group(case, rec, rng, scene)
        elif kind == "drill":
            run_drill(case, rec, rng, scene)
        elif kind == "pair":
            run_pair(case, rec, rng, scene)
        elif kind == "root":
            run_root(case, rec, rng, scene)
        else:
            run_data(case, rec, rng, scene)
    finally:
        scene.close()
        gc.collect()


def run_object(case, rec, rng, scene):
    cname = case["cls"]
    if cname in gen.ALL_OBJECTS:
        src = gen.build_object(scene.ws, cname, parent=scene.home, rng=rng, name="source", base=100)
    else:
        src = gen.object_class(cname).create(scene.ws, parent=scene.home, name="source")
        rec.see("classes-built-empty")
    made = populate(src, rng, rec)
    if cname == "Drillhole":
        # what a logged hole carries: its own end of hole (deeper than the last survey), cost, status, a depth log and intervals
        src.end_of_hole = float(np.asarray(src.surveys)[-1, 0]) + 25.0
        src.cost = 1234.5
        src.planning = "Planned"
        src.add_data({"gamma": {"depth": np.array([2.0, 6.0, 11.0]), "values": np.array([0.5, 0.25, 0.125])}})
        src.add_data({"lith": {"from-to": np.array([[1.0, 3.0], [3.0, 8.0]]), "values": np.array([7.0, 9.0])}})
        rec.see("logged-drillholes")
    where = f"copy:{case['target']}:{'children' if case['children'] else 'bare'}{':clear_cache' if case.get('clear_cache') else ''}"
    # the copy is judged against a source that was stored, closed and re-loaded half of the time
    if case.get("rep", 0) % 2 == 1 or rng.random() < 0.4:
        uid = src.uid
        scene.ws.close()
        scene.ws.open()
        scene.home = scene.ws.get_entity(scene.home.uid)[0]
        scene.other = scene.ws.get_entity(scene.other.uid)[0]
        src = scene.ws.get_entity(uid)[0]
        rec.see("source-reloaded")
        where += ":reloaded"
    if case["target"] == "other-workspace" and case["children"] and made and (case.get("rep", 0) + len(cname)) % 2 == 0:
        # one grouped child already travelled on its own: its identifier is taken in the target, so the copy of the whole
        # object must renumber it there -- and must still leave the source file alone
        grouped = [d for _, d in made if any(d.uid in (pg.properties or []) for pg in (src.property_groups or []))]
        if grouped:
            child = grouped[0]
            try:
                host = gen.build_object(scene.ws2, cname if cname in gen.ALL_OBJECTS else "Points", rng=random.Random(case["seed"]), name="host in target", base=100)
                child.copy(parent=host)
                rec.see("child-uid-taken-in-target")
                where += ":child-precopied"
            except Exception as exc:  # noqa: BLE001
                from ..core import exc_origin

                if not exc_origin(exc)[0]:
                    raise
                rec.see("precopy-refused:" + type(exc).__name__)
    if case.get("mask"):
        new = do_masked_copy(rec, scene, src, case, where + ":mask", rng)
    else:
        new = do_copy(rec, scene, src, case, where)
    rec.see("classes-covered") if case["target"] == "same-parent" and case["children"] and not case.get("mask") else None
    rec.nontrivial = new is not None and len(made) >= 1
    rec.shape = ["object", cname, case["target"], case["children"], case.get("clear_cache"), sorted({type(d).__name__ for _, d in made})]
    rec.sample = {"class": cname, "target": case["target"], "children": case["children"], "data": [d.name for _, d in made][:6]}


def run_pair(case, rec, rng, scene):
    """Copy one side of a linked survey pair: the copy brings its own partner, and the source pair (public view and file,
    including both metadata blocks) stays exactly as it was."""
    from . import c20

    pair = tuple(case["pair"])
    rx, tx, extra = c20.build_pair(scene.ws, pair, rng, parent=scene.home)
    c20.link(pair, rx, tx, case["direction"], extra)
    src = rx if case["side"] == "rx" else tx
    populate(src, rng, rec)
    where = f"copy-linked:{case['target']}:{case['side']}"
    if case.get("rep", 0) % 2 == 1 or rng.random() < 0.4:
        uid = src.uid
        del rx, tx
        scene.ws.close()
        scene.ws.open()
        scene.home = scene.ws.get_entity(scene.home.uid)[0]
        scene.other = scene.ws.get_entity(scene.other.uid)[0]
        src = scene.ws.get_entity(uid)[0]
        where += ":reloaded"
    rec.see("linked-pair-copies")
    new = do_copy(rec, scene, src, case, where)
    rec.nontrivial = new is not None
    rec.shape = ["pair", pair[0], case["side"], case["target"], case["direction"]]
    rec.sample = {"pair": pair[0], "side": case["side"], "target": case["target"]}


def run_group(case, rec, rng, scene):
    cname = case["cls"]
    g = gen.group_class(cname).create(scene.ws, parent=scene.home, name="gsource")
    sub = gen.group_class("ContainerGroup").create(scene.ws, parent=g, name="sub")
    objs = []
    for i, oc in enumerate(rng.sample(gen.BASIC_OBJECTS, 3)):
        o = gen.build_object(scene.ws, oc, parent=g if i % 2 == 0 else sub, rng=rng, name=f"o{i}", base=100 * (i + 1))
        populate(o, rng, rec)
        objs.append(o)
    if cname in ("SimPEGGroup", "UIJsonGroup"):
        g.options = {"title": "x", "n": 3}
    g.metadata = {"note": "group"}
    g.add_comment("hello", author="verif")
    rec.see("group-subtrees")
    where = f"copy-group:{case['target']}"
    new = do_copy(rec, scene, g, dict(case, children=True, override_name=(len(cname) + TARGETS.index(case["target"]) + case.get("rep", 0)) % 2 == 0), where)
    rec.see("classes-covered") if case["target"] == "same-parent" else None
    rec.nontrivial = new is not None
    rec.shape = ["group", cname, case["target"], [type(o).__name__ for o in objs]]
    rec.sample = {"class": cname, "target": case["target"], "objects": [type(o).__name__ for o in objs]}


def run_root(case, rec, rng, scene):
    """'Everything in this workspace' is its root group.  A workspace has one root, so the copy cannot be one: whatever it is, it
    holds copies of the root's children, the workspace that receives it keeps its own content, and the source is unchanged."""
    from geoh5py.objects import Points
    from geoh5py.workspace import Workspace

    for k in range(2):
        o = gen.build_object(scene.ws, rng.choice(["Points", "Curve"]), parent=scene.home if k else None, rng=rng, name=f"content {k}", base=50 * k)
        populate(o, rng, rec)
    own = Points.create(scene.ws2, vertices=np.zeros((2, 3)), name="own content of the target")
    own_uid = own.uid
    own = None
    where = f"copy-root:{case['target']}"
    before = snap.api_snapshot(scene.ws)
    src_children = sorted((type(c).__name__, c.name) for c in scene.ws.root.children)
    try:
        new = scene.ws.root.copy(parent=scene.ws2 if case["target"] == "other-workspace" else None)
    except Exception as exc:  # noqa: BLE001
        from ..core import exc_origin

        if not exc_origin(exc)[0]:
            raise
        rec.see("root-copy-refused:" + type(exc).__name__)  # a refusal leaves everything as it was: judged below
        new = None
    rec.see("copies-judged")
    rec.see("root-copies")
    if new is not None:
        got = sorted((type(c).__name__, c.name) for c in new.children if c.uid != new.uid and (case["target"] != "same-parent" or c is not new))
        rec.check("C12.subtree", got == src_children, op=where, cls="RootGroup", attr="children", detail=f"the copy of the root holds {got}, the root held {src_children}")
        rec.check("C12.differs", new is not new.workspace.root and new.parent is not None, op=where, cls="RootGroup", attr="second-root", detail=f"the copy is a {type(new).__name__} without a parent (a second root)")
    after = snap.api_snapshot(scene.ws)
    ignore = set()
    for u in set(after) - set(before):
        ignore |= _subtree(after, u)
    check_unchanged(rec, before, after, where, "RootGroup", ignore_uids=ignore, allow_children_of={str(scene.ws.root.uid)})
    new = None
    path2 = scene.ws2.h5file
    scene.ws2.close()
    try:
        with Workspace(path2, mode="r") as fresh:
            kept = fresh.get_entity(own_uid)[0]
            rec.check("C12.source-changed", kept is not None and kept.name == "own content of the target" and any(c.uid == own_uid for c in fresh.root.children), op=where, cls="Workspace", attr="target-content", detail=f"what the receiving workspace held before is no longer under its root after re-opening (root children: {[c.name for c in fresh.root.children]})")
            rec.evals["C02-like.layout"] += 1
    except Exception as exc:  # noqa: BLE001
        rec.fail("C12.source-changed", op=where, cls="Workspace", attr="target-unreadable", detail=f"the receiving workspace cannot be opened after the copy: {type(exc).__name__}: {short(str(exc), 160)}")
    scene.ws2.open()
    rec.nontrivial = True
    rec.shape = ["root", case["target"]]
    rec.sample = {"kind": "root", "target": case["target"]}


def run_data(case, rec, rng, scene):
    from geoh5py.objects import Points

    a = Points.create(scene.ws, parent=scene.home, name="A", vertices=gen.tagged_vertices(5, 0, rng))
    b = Points.create(scene.ws, parent=scene.home, name="B", vertices=gen.tagged_vertices(5, 50, rng))
    spec, _ = gen.data_spec(a, case["dkind"], "VERTEX" if case["dkind"] != "text_object" else "OBJECT", rng, tag=3)
    d = a.add_data({"d": spec})
    target = a if case["target"] == "same-parent" else b
    before = snap.api_snapshot(scene.ws)
    new = d.copy(parent=target, name="d_copy")
    rec.see("copies-judged")
    rs, rn = strip(snap.entity_record(d)), strip(snap.entity_record(new))
    rs["attrs"].pop("name", None)
    rn["attrs"].pop("name", None)
    rec.evals["C12.differs"] += 1
    for path, x, y in diff_paths(rs, rn, limit=5):
        rec.fail("C12.differs", op="copy-data:" + case["target"], cls=type(d).__name__, attr="/".join(path.strip("/").split("/")[:2]), detail=f"{path}: {short(x)} vs {short(y)}", counted=True)
    aliasing(rec, d, new, "copy-data", type(d).__name__)
    after = snap.api_snapshot(scene.ws)
    check_unchanged(rec, before, after, "copy-data:" + case["target"], type(d).__name__, ignore_uids={str(new.uid)}, allow_children_of={str(target.uid)})
    v = new.values
    if isinstance(v, np.ndarray) and v.dtype.kind == "f":
        v2 = v.copy()
        v2[0] = -1.0
        new.values = v2
        rec.check("C12.aliasing", float(d.values[0]) != -1.0, op="copy-data:edit", cls=type(d).__name__, attr="values", detail="assigning values to the copy changed the source's values")
    rec.nontrivial = True
    rec.shape = ["data", case["dkind"], case["target"]]
    rec.sample = {"data": case["dkind"], "target": case["target"]}


# ------------------------------------------------------------------------------------------
def hole_store(group):
    """hole name -> {data name: values} through the public API."""
    out = {}
    for h in group.children:
        if not hasattr(h, "surveys"):
            continue
        rec_ = {"collar": canon(h.collar), "surveys": canon(h.surveys), "end_of_hole": canon(h.end_of_hole), "cost": canon(h.cost), "data": {}}
        for name in sorted(h.get_data_list()):
            dd = h.get_data(name)
            rec_["data"][name] = canon(dd[0].values) if dd else None
        rec_["pgs"] = sorted((pg.name, pg.property_group_type, len(pg.properties or [])) for pg in (h.property_groups or []))
        out[h.name] = rec_
    return out


def run_drill(case, rec, rng, scene):
    from geoh5py import groups
    from geoh5py.objects import Drillhole

    grp = getattr(groups, case["cls"]).create(scene.ws, parent=scene.home, name="DH")
    expected = {}
    mode = (TARGETS.index(case["target"]) + (1 if case["version"] == 2.1 else 0) + len(case["cls"]) + case.get("rep", 0)) % 3
    lazy = mode == 0  # do not read the source before the copy: its first read comes after the copy was edited
    for i in range(rng.randint(2, 4)):
        h = Drillhole.create(scene.ws, parent=grp, name=f"h{i}", collar=[float(i), 1.0, 10.0], surveys=np.array([[0.0, 10.0 * i, -90.0], [20.0, 10.0, -80.0], [40.0, 20.0, -70.0]]))
        h.end_of_hole = 55.0 + i  # deeper than the last survey station
        h.cost = 100.0 * (i + 1)
        n = rng.randint(2, 5)
        for j in range(rng.randint(1, 3)):
            vals = (np.arange(n, dtype=float) + 10 * i + j).astype("float32").astype(float)
            if rng.random() < 0.4:
                vals[rng.randrange(n)] = np.nan
            h.add_data({f"v{j}": {"depth": np.arange(n, dtype=float) + 0.5, "values": vals.copy()}}, property_group="dtab")
            expected.setdefault(f"h{i}", {})[f"v{j}"] = canon(vals)
        if rng.random() < 0.6:
            h.add_data({"iv": {"from-to": np.c_[np.arange(3.0), np.arange(3.0) + 1.0], "values": np.arange(3.0) + 100 * i}}, property_group="itab")
            expected.setdefault(f"h{i}", {})["iv"] = canon(np.arange(3.0) + 100 * i)
    if (mode + case.get("rep", 0) + len(expected)) % 2 == 0:
        # ordinary children next to the holes: a remark and an attached file on the group itself
        grp.add_comment("remark on the drillhole group", author="logger")
        fpath = os.path.join(scene.dir, "collar_survey.txt")
        with open(fpath, "w") as f:
            f.write("hole,x,y\n")
        grp.add_file(fpath)
        rec.see("drillhole-groups-with-ordinary-children")
    rec.see("drillhole-groups")
    where = f"copy-drillgroup:{case['target']}:v{case['version']}"
    if lazy or rng.random() < 0.5:
        uid = grp.uid
        scene.ws.close()
        scene.ws.open()
        scene.home = scene.ws.get_entity(scene.home.uid)[0]
        scene.other = scene.ws.get_entity(scene.other.uid)[0]
        grp = scene.ws.get_entity(uid)[0]
        where += ":reloaded"
    if lazy:
        where += ":lazy-source"
        rec.see("lazy-source-copies")
        return run_drill_lazy(case, rec, rng, scene, grp, expected, where)
    store0 = hole_store(grp)
    target = scene.target(case["target"], grp)
    if mode == 1:
        # the workspace that receives the copy already holds a drillhole group of its own (created first)
        from geoh5py.groups import DrillholeGroup

        local = DrillholeGroup.create(target.workspace, name="local holes")
        lh = Drillhole.create(target.workspace, parent=local, name="local", collar=[9.0, 9.0, 9.0], surveys=np.array([[0.0, 0.0, -90.0], [10.0, 0.0, -90.0]]))
        lh.add_data({"local log": {"depth": np.array([1.0, 2.0]), "values": np.array([5.0, 6.0])}})
        if target.workspace is not scene.ws and case.get("rep", 0) >= 3:
            # one of the holes was copied over on its own before (it keeps its identifier there): the group copy that follows
            # finds that identifier taken although the group's own is free
            alone = [c for c in grp.children if getattr(c, "name", "") == "h0"][0].copy(parent=local)
            rec.check("C12.holes", alone is not None and alone.parent is not None and alone.parent.uid == local.uid, op=where + ":hole-alone", cls=case["cls"], attr="parent", detail="a hole copied on its own into the other workspace's drillhole group is not under that group")
            alone = None
            rec.see("hole-copied-alone-before-the-group")
        local = lh = None
        rec.see("target-with-its-own-drillhole-group")
    dig0 = snap.node_digests(snap.raw_snapshot(scene.ws.geoh5))
    try:
        new = grp.copy(parent=target)
    except Exception as exc:  # noqa: BLE001
        from ..core import exc_origin

        if not exc_origin(exc)[0]:
            raise
        rec.fail("C12.holes", op=where, cls=case["cls"], attr=type(exc).__name__, detail=f"copying the drillhole group raised {type(exc).__name__}: {exc}")
        return
    rec.see("copies-judged")
    rec.see("class:" + case["cls"])
    left_alone = mode == 1  # the copy is not even read in this session (nothing of it gets instantiated)
    store1 = store0 if left_alone else hole_store(new)
    rec.evals["C12.holes"] += 1
    for path, x, y in diff_paths(store0, store1, limit=6):
        fld = path.strip("/").split("/")
        rec.fail("C12.holes", op=where, cls=case["cls"], attr=fld[1] if len(fld) > 1 else "hole", detail=f"{path}: source {short(x)} copy {short(y)}", counted=True)
    rec.check("C12.source-changed", hole_store(grp) == store0, op=where, cls=case["cls"], attr="holes", detail="source holes read differently after the copy")
    dig1 = snap.node_digests(snap.raw_snapshot(scene.ws.geoh5))
    gpath = "Groups/{" + str(grp.uid) + "}"
    rec.check("C12.source-changed", dig0.get(gpath, {}).get("content") == dig1.get(gpath, {}).get("content"), op=where, cls=case["cls"], attr="file:Groups", detail="the source group's concatenated store changed in the file")
    if left_alone:
        # the copy is left alone: the session goes on with unrelated work in the copy's workspace (an object is created and
        # removed, the type listing is read) while nobody holds the copied holes; a later reader must still find every hole
        # with its data
        from geoh5py.objects import Points

        tws, new_uid = new.workspace, new.uid
        new = None
        gc.collect()
        try:
            other = Points.create(tws, vertices=np.zeros((2, 3)), name="unrelated")
            tws.remove_entity(other)
            other = None
            _ = tws.types
            tws.close()
            tws.open()
            again = tws.get_entity(new_uid)[0]
            store2 = hole_store(again)
        except Exception as exc:  # noqa: BLE001
            from ..core import exc_origin

            if not exc_origin(exc)[0]:
                raise
            rec.fail("C12.holes", op=where + ":after-unrelated-work", cls=case["cls"], attr=type(exc).__name__, detail=f"after unrelated work in the copy's workspace and a re-open, reading the copied holes raised {type(exc).__name__}: {short(str(exc), 200)}")
            return
        rec.see("copies-left-alone")
        for path, x, y in diff_paths(store0, store2, limit=6):
            fld = path.strip("/").split("/")
            rec.fail("C12.holes", op=where + ":after-unrelated-work", cls=case["cls"], attr=fld[1] if len(fld) > 1 else "hole", detail=f"{path}: source {short(x)} re-opened copy {short(y)}", counted=True)
        if tws is scene.ws:
            scene.home = scene.ws.get_entity(scene.home.uid)[0]
            scene.other = scene.ws.get_entity(scene.other.uid)[0]
        rec.nontrivial = True
        rec.shape = ["drill", case["cls"], case["target"], case["version"], len(store0), "left-alone"]
        return
    if mode == 2 and case["target"] != "same-parent":
        # the same group once more into the same place: the identifiers are taken now, the second copy gets its own
        try:
            again = grp.copy(parent=target)
            store_again = hole_store(again)
            rec.see("second-copies-of-drillhole-groups")
            for path, x, y in diff_paths(store0, store_again, limit=4):
                fld = path.strip("/").split("/")
                rec.fail("C12.holes", op=where + ":second-copy", cls=case["cls"], attr=fld[1] if len(fld) > 1 else "hole", detail=f"{path}: source {short(x)} second copy {short(y)}", counted=True)
            first_ids = {str(new.uid)} | {str(h.uid) for h in new.children}
            second_ids = {str(again.uid)} | {str(h.uid) for h in again.children}
            rec.check("C12.holes", not (first_ids & second_ids), op=where + ":second-copy", cls=case["cls"], attr="uid", detail=f"the two copies share identifiers {sorted(first_ids & second_ids)[:2]}")
            tws = again.workspace
            if tws is not scene.ws:
                again = None
                nuid = new.uid
                new = None
                tws.close()
                tws.open()
                new = tws.get_entity(nuid)[0]
                rec.check("C12.holes", new is not None and hole_store(new) == store0, op=where + ":second-copy:reopened", cls=case["cls"], attr="holes", detail="after two copies into the other workspace and a re-open, the first copy reads differently")
        except Exception as exc:  # noqa: BLE001
            from ..core import exc_origin

            if not exc_origin(exc)[0]:
                raise
            rec.fail("C12.holes", op=where + ":second-copy", cls=case["cls"], attr=type(exc).__name__, detail=f"copying the drillhole group a second time to the same place raised {type(exc).__name__}: {short(str(exc), 160)}")
            return
    # edit the copy (update one hole's data, remove another's), then re-read the source lazily
    try:
        holes = [h for h in new.children if hasattr(h, "surveys")]
        h0 = holes[0]
        name0 = [n for n in h0.get_data_list() if n.startswith("v")][0]
        d0 = h0.get_data(name0)[0]
        d0.values = d0.values * 0.0 - 5.0
        if len(holes) > 1:
            hl = holes[-1]
            names = [n for n in hl.get_data_list() if n.startswith("v")]
            if names:
                hl.remove_children([hl.get_data(names[0])[0]])
    except Exception as exc:  # noqa: BLE001
        from ..core import exc_origin

        if not exc_origin(exc)[0]:
            raise
        rec.fail("C12.edit-raises", op=where, cls=case["cls"], attr=type(exc).__name__, detail=f"editing the copied group raised {type(exc).__name__}: {exc}")
        return
    # fresh view of the source: re-open the source workspace
    uid = grp.uid
    scene.ws.close()
    scene.ws.open()
    grp2 = scene.ws.get_entity(uid)[0]
    rec.check("C12.aliasing", hole_store(grp2) == store0, op=where + ":after-edit-of-copy", cls=case["cls"], attr="holes", detail=f"source holes changed after editing the copy: {short(diff_paths(store0, hole_store(grp2), limit=2), 300)}")
    scene.home = scene.ws.get_entity(scene.home.uid)[0]
    scene.other = scene.ws.get_entity(scene.other.uid)[0]
    rec.nontrivial = True
    rec.shape = ["drill", case["cls"], case["target"], case["version"], len(store0)]
    rec.sample = {"class": case["cls"], "target": case["target"], "holes": {k: sorted(v["data"]) for k, v in store0.items()}}


def run_drill_lazy(case, rec, rng, scene, grp, expected, where):
    """The source's values are first read *after* the copy was made and edited (lazy loading)."""
    from ..core import exc_origin

    target = scene.target(case["target"], grp)
    try:
        new = grp.copy(parent=target)
        rec.see("copies-judged")
        rec.see("class:" + case["cls"])
        holes = sorted([h for h in new.children if hasattr(h, "surveys")], key=lambda h: h.name)
        # re-assign the first hole's data, remove one from the middle, add to the last: all on the copy
        for h in holes[:-1]:
            names = [n for n in h.get_data_list() if n.startswith("v")]
            if names:
                d = h.get_data(names[0])[0]
                d.values = d.values * 0.0 - 7.0
        hm = holes[len(holes) // 2]
        names = [n for n in hm.get_data_list() if n.startswith("v")]
        if len(names) > 1:
            hm.remove_children([hm.get_data(names[-1])[0]])
    except Exception as exc:  # noqa: BLE001
        if not exc_origin(exc)[0]:
            raise
        rec.fail("C12.edit-raises", op=where, cls=case["cls"], attr=type(exc).__name__, detail=f"copy/edit of the drillhole group raised {type(exc).__name__}: {exc}")
        return
    got = {}
    for h in grp.children:
        if hasattr(h, "surveys"):
            got[h.name] = {}
            for n in h.get_data_list():
                if n.startswith(("v", "iv")):
                    dd = h.get_data(n)
                    got[h.name][n] = canon(dd[0].values) if dd else None
    exp = {k: v for k, v in expected.items()}
    for hname in got:
        exp.setdefault(hname, {})
    rec.evals["C12.aliasing"] += 1
    for path, x, y in diff_paths(exp, got, limit=4):
        if isinstance(x, dict) and isinstance(y, dict) and x.get("data") == y.get("data"):
            continue
        rec.fail("C12.aliasing", op=where, cls=case["cls"], attr="source-values-after-copy-edit", detail=f"{path}: written {short(x)} but the source now reads {short(y)}", counted=True)
    rec.nontrivial = True
    rec.shape = ["drill-lazy", case["cls"], case["target"], case["version"], len(expected)]
    rec.sample = {"class": case["cls"], "target": case["target"], "lazy": True, "holes": {k: sorted(v) for k, v in expected.items()}}
