"""C16 — merging preserves every input's geometry and data.

Tag-encoded inputs (vertex i of input k has x = 1000 k + i; every datum is a function of the tag of
its vertex / cell) so that after a merge every element identifies where it came from.  Clauses:
merged vertices are the inputs' vertices in order; every merged cell connects the same coordinates
as the corresponding input cell (also when an input has vertices that no cell uses); data are
concatenated per (name, type, association) in input order with no-data where an input lacks them;
drape models keep every input cell centre and value; inputs are unchanged (public view and file
digests); the merged object reads the same after re-open.  NpPoison is active in the merger modules."""
from __future__ import annotations

import gc
import os
import random
import shutil
import tempfile

import numpy as np

from .. import snap
from ..core import canon, short
from . import c18

PROP = "C16"
LEVEL = "exploration"
RULE = (
    "case = one merge of 2-5 same-class inputs (Points, Curve, Surface, DrapeModel) built with random vertex counts, "
    "cells that may skip the last vertex / leave vertices unused / be unordered, data present on some inputs only, "
    "same name with different association. Non-trivial = >= 2 inputs with >= 1 data set; distinct = (class, vertex "
    "counts, cell styles, data layout)."
)
ASSUMPTIONS = ["inputs of one merge share one workspace; data values are float64/int32 exact", "no-data for missing segments is NaN (float) / INT_NDV (integer)"]


def floors(tier):
    return {"merges": 200, "merges:Points": 40, "merges:Curve": 40, "merges:Surface": 40, "merges:DrapeModel": 30, "last-vertex-unreferenced": 30, "data-missing-on-some-input": 50, "three-or-more-inputs": 60, "C16.cell-coords": 300, "C16.data": 300, "C16.reopen": 100}


def gen_cases(tier, seed):
    n = 360 if tier == "quick" else 6000
    return [{"kind": "merge", "cls": ["Points", "Curve", "Surface", "DrapeModel"][i % 4], "n_inputs": 2 + (i // 4) % 4} for i in range(n)]


def install_poison():
    import geoh5py.shared.merging.base as b
    import geoh5py.shared.merging.cell as c
    import geoh5py.shared.merging.drape_model as d
    import geoh5py.shared.merging.points as p

    for m in (b, c, d, p):
        if not isinstance(m.np, c18.NpPoison):
            m.np = c18.NpPoison(np, c18._POISON)


def run_case(case, rec):
    from geoh5py.shared import INTEGER_NDV
    from geoh5py.shared.merging import CurveMerger, DrapeModelMerger, PointsMerger, SurfaceMerger
    from geoh5py.workspace import Workspace

    install_poison()
    rng = random.Random(case["seed"])
    cls = case["cls"]
    d = tempfile.mkdtemp(prefix="gvm_")
    path = os.path.join(d, "m.geoh5")
    try:
        ws = Workspace.create(path)
        inputs, spec = build_inputs(ws, cls, case["n_inputs"], rng, rec)
        before = {str(o.uid): snap.entity_record(o) for o in inputs}
        before_kids = {str(c.uid): snap.entity_record(c) for o in inputs for c in o.children if not snap._is_pg(c)}
        if rng.random() < 0.35:
            # the inputs come from a stored file and nobody has looked at their data yet (the snapshots above were taken before)
            uids = [o.uid for o in inputs]
            del inputs
            ws.close()
            ws = Workspace(path, mode="r+")
            inputs = [ws.get_entity(u)[0] for u in uids]
            rec.see("merges-of-reloaded-inputs")
        rec.see("merges")
        rec.see("merges:" + cls)
        if case["n_inputs"] >= 3:
            rec.see("three-or-more-inputs")
        merger = {"Points": PointsMerger, "Curve": CurveMerger, "Surface": SurfaceMerger, "DrapeModel": DrapeModelMerger}[cls]
        dig0 = snap.node_digests(snap.raw_snapshot(ws.geoh5))
        try:
            merged = merger.merge_objects(ws, inputs, name="merged")
        except Exception as exc:  # noqa: BLE001
            from ..core import exc_origin

            if not exc_origin(exc)[0]:
                raise
            rec.fail("C16.merge-raises", op="merge", cls=cls, attr=type(exc).__name__, detail=f"{type(exc).__name__}: {exc} spec={short(spec, 300)}")
            return
        if cls == "DrapeModel":
            judge_drape(rec, merged, inputs, spec)
        else:
            judge_cells(rec, merged, inputs, spec, cls, INTEGER_NDV, "live")
        # inputs unchanged
        for o in inputs:
            rec.check("C16.input-changed", snap.entity_record(o) == before[str(o.uid)], op="merge", cls=cls, attr="object", detail=f"input {o.name} changed by the merge")
            for c in o.children:
                if not snap._is_pg(c) and str(c.uid) in before_kids:
                    rec.check("C16.input-changed", snap.entity_record(c) == before_kids[str(c.uid)], op="merge", cls=cls, attr="data", detail=f"data {c.name} of input {o.name} changed by the merge")
        dig1 = snap.node_digests(snap.raw_snapshot(ws.geoh5))
        changed = [p for p in dig0 if p in dig1 and dig0[p]["content"] != dig1[p]["content"] and p != "<project>"]
        rec.check("C16.input-changed", not changed, op="merge", cls=cls, attr="file", detail=f"merge changed stored nodes of the inputs: {changed[:3]}")
        # the merged object as a later reader sees it
        uid = merged.uid
        ws.close()
        ws2 = Workspace(path, mode="r")
        m2 = ws2.get_entity(uid)[0]
        rec.evals["C16.reopen"] += 1
        if m2 is None:
            rec.fail("C16.reopen", op="reopen", cls=cls, attr="missing", detail="merged object not found after re-open", counted=True)
        elif cls == "DrapeModel":
            judge_drape(rec, m2, None, spec, where="reopened")
        else:
            judge_cells(rec, m2, None, spec, cls, INTEGER_NDV, "reopened")
        ws2.close()
        rec.nontrivial = bool(spec["data_names"])
        rec.shape = [cls, [s["n"] for s in spec["inputs"]], [s.get("cell_style") for s in spec["inputs"]], sorted(spec["data_names"])]
        rec.sample = {"cls": cls, "inputs": [{k: v for k, v in s.items() if k in ("n", "cell_style", "data")} for s in spec["inputs"]]}
    finally:
        shutil.rmtree(d, ignore_errors=True)
        gc.collect()


# ------------------------------------------------------------------------------------------
def vtag(k, i):
    return 1000.0 * (k + 1) + i


def build_inputs(ws, cls, n_inputs, rng, rec):
    from geoh5py.objects import Curve, DrapeModel, Points, Surface

    inputs, spec = [], {"inputs": [], "data_names": set()}
    alt_types = rng.random() < 0.3
    closed_loops = cls == "Curve" and rng.random() < 0.25  # every input a closed loop: the merged curve has as many cells as vertices
    if closed_loops:
        rec.see("closed-loop-cases")
    names = ["alpha", "beta", "gamma"]
    for k in range(n_inputs):
        s = {}
        if cls == "DrapeModel":
            npr = rng.randint(2, 4)
            layers, prisms, first = [], [], 0
            for p in range(npr):
                nl = rng.randint(1, 3)
                prisms.append([vtag(k, p), 10.0 * k, 50.0, first, nl])
                for j in range(nl):
                    layers.append([p, j, 50.0 - 5.0 * (j + 1)])
                first += nl
            obj = DrapeModel.create(ws, name=f"in{k}", layers=np.array(layers, dtype=float), prisms=np.array(prisms, dtype=float))
            s.update(n=len(layers), prisms=prisms, layers=layers, ncells=len(layers))
        else:
            n = rng.randint(3, 8)
            verts = np.array([[vtag(k, i), float(i % 3), 0.5 * k] for i in range(n)])
            kw = {"vertices": verts, "name": f"in{k}"}
            style = None
            cells = None
            if cls == "Curve":
                style = "closed" if closed_loops else rng.choice(["path", "skip-last", "gaps", "unordered"])
                segs = [[i, i + 1] for i in range(n - 1)]
                if style == "closed":
                    segs.append([n - 1, 0])
                elif style == "skip-last":
                    segs = segs[:-1] if len(segs) > 1 else segs
                elif style == "gaps":
                    segs = [sg for sg in segs if rng.random() < 0.6] or [[0, 1]]
                elif style == "unordered":
                    rng.shuffle(segs)
                cells = np.array(segs, dtype="uint32")
            elif cls == "Surface":
                style = rng.choice(["all", "skip-last", "unordered"])
                top = n - 1 if style == "skip-last" else n
                cells = np.array([sorted(rng.sample(range(max(3, top)), 3)) for _ in range(rng.randint(1, 4))], dtype="uint32")
                if style == "unordered":
                    cells = cells[:, ::-1]
            if cells is not None:
                kw["cells"] = cells
                if int(cells.max()) < n - 1:
                    rec.see("last-vertex-unreferenced")
                    s["last_unreferenced"] = True
            obj = {"Points": Points, "Curve": Curve, "Surface": Surface}[cls].create(ws, **kw)
            s.update(n=n, cell_style=style, cells=None if cells is None else cells.tolist(), ncells=0 if cells is None else len(cells), verts=verts.tolist())
        # data: some names on some inputs only
        s["data"] = {}
        for nm in names:
            if rng.random() < 0.6:
                assoc = "CELL" if (cls != "Points" and rng.random() < 0.4) else "VERTEX"
                if cls == "DrapeModel":
                    assoc = "CELL"
                cnt = s["ncells"] if assoc == "CELL" else s["n"]
                if cnt == 0:
                    continue
                kind = "int" if nm == "gamma" else "float"
                tname = nm
                if kind == "float":
                    vals = np.array([vtag(k, i) + (0.25 if assoc == "CELL" else 0.5) + names.index(nm) * 0.01 for i in range(cnt)])
                    if rng.random() < 0.3:
                        vals[rng.randrange(cnt)] = np.nan
                    extra = {}
                    if alt_types and rng.random() < 0.4:
                        # same data name, another data type (same primitive type): merged separately ("per name, type and association")
                        tname = nm + "_ppb"
                        extra = {"entity_type": {"name": tname, "primitive_type": "FLOAT"}}
                        rec.see("same-name-other-type")
                    obj.add_data({nm: {"values": vals.copy(), "association": assoc, **extra}})
                else:
                    vals = np.array([int(vtag(k, i)) for i in range(cnt)], dtype="int32")
                    obj.add_data({nm: {"values": vals.copy(), "association": assoc, "type": "integer"}})
                s["data"][nm] = {"assoc": assoc, "kind": kind, "values": vals.tolist(), "tname": tname}
                spec["data_names"].add((nm, assoc, kind, tname))
        if rng.random() < 0.2:
            # a number that belongs to the object as a whole (not to its vertices or cells): it cannot be concatenated, and it
            # must not get in the way of the merge either
            obj.add_data({"whole-object number": {"values": np.array([float(k)]), "association": "OBJECT"}})
            rec.see("inputs-with-object-level-numbers")
        inputs.append(obj)
        spec["inputs"].append(s)
    present = [set(s["data"]) for s in spec["inputs"]]
    if any(p != present[0] for p in present):
        rec.see("data-missing-on-some-input")
    return inputs, spec


def judge_cells(rec, merged, inputs, spec, cls, int_ndv, where):
    exp_verts = [v for s in spec["inputs"] for v in s["verts"]]
    got = merged.vertices
    ok = got is not None and got.shape == (len(exp_verts), 3) and np.array_equal(got, np.array(exp_verts))
    rec.check("C16.vertices", ok, op=where, cls=cls, attr="", detail=f"merged vertices are not the inputs' vertices in order (got {None if got is None else got[:, 0].tolist()})")
    if not ok:
        return
    if cls != "Points":
        exp_cells = []
        for s in spec["inputs"]:
            for c in s["cells"]:
                exp_cells.append(tuple(tuple(s["verts"][i]) for i in c))
        cells = merged.cells
        attr = "last-vertex-unreferenced" if any(s.get("last_unreferenced") for s in spec["inputs"][:-1]) else ""
        if cells is None or len(cells) != len(exp_cells):
            rec.fail("C16.cell-coords", op=where, cls=cls, attr=attr or "count", detail=f"{None if cells is None else len(cells)} merged cells for {len(exp_cells)} input cells")
        else:
            bad = None
            for j, c in enumerate(cells.tolist()):
                if any(i < 0 or i >= len(exp_verts) for i in c):
                    bad = (j, c, "index out of range")
                    break
                coords = tuple(tuple(exp_verts[i]) for i in c)
                if coords != exp_cells[j]:
                    bad = (j, c, f"connects x-tags {[x[0] for x in coords]} instead of {[x[0] for x in exp_cells[j]]}")
                    break
            rec.evals["C16.cell-coords"] += len(exp_cells) - 1
            rec.check("C16.cell-coords", bad is None, op=where, cls=cls, attr=attr, detail=f"merged cell {bad}")
    judge_data(rec, merged, spec, cls, int_ndv, where, cell_count=sum(s["ncells"] for s in spec["inputs"]))


def judge_data(rec, merged, spec, cls, int_ndv, where, cell_count, cell_index=None):
    kids = {}
    for c in merged.children:
        if hasattr(c, "values") and hasattr(c, "association") and not snap._is_pg(c):
            kids.setdefault((c.name, c.association.name, c.entity_type.name), []).append(c)
    for nm, assoc, kind, tname in sorted(spec["data_names"]):
        lst = kids.get((nm, assoc, tname), [])
        if len(lst) != 1:
            rec.fail("C16.data", op=where, cls=cls, attr="data-count", detail=f"{len(lst)} merged data named {nm!r} ({assoc}) for one (name, type, association) class")
            continue
        vals = lst[0].values
        exp = []
        for s in spec["inputs"]:
            cnt = s["ncells"] if assoc == "CELL" else s["n"]
            dd = s["data"].get(nm)
            if dd is not None and dd["assoc"] == assoc and dd.get("tname", nm) == tname:
                exp += dd["values"]
            else:
                exp += [float("nan") if kind == "float" else int_ndv] * cnt
        if cell_index is not None and assoc == "CELL":
            gotv = None if vals is None else [vals[i] for i in cell_index]
        else:
            gotv = None if vals is None else list(vals)
            if gotv is not None and len(gotv) != len(exp):
                rec.fail("C16.data", op=where, cls=cls, attr="length", detail=f"{nm}: {len(gotv)} merged values for {len(exp)} input elements")
                continue
        same = gotv is not None and all((a == b) or (a != a and b != b) for a, b in zip(gotv, exp))
        rec.check("C16.data", same, op=where, cls=cls, attr=f"{assoc.lower()}-{kind}", detail=f"{nm} ({assoc}): merged {short(canon(gotv), 300)} expected {short(canon(exp), 300)}")


def judge_drape(rec, merged, inputs, spec, where="live"):
    """Every input cell keeps its centre and its value; ghost cells carry no data."""
    cent = merged.centroids
    exp_c = []
    for s in spec["inputs"]:
        for p in s["prisms"]:
            x, y, top, first, count = p
            prev = top
            for r in range(int(first), int(first) + int(count)):
                bottom = s["layers"][r][2]
                exp_c.append((x, y, (prev + bottom) / 2.0))
                prev = bottom
    # locate every expected centre among the merged centres (x is a unique tag per prism)
    index = []
    ok = cent is not None
    detail = ""
    if ok:
        lookup = {}
        for i, c in enumerate(cent.tolist()):
            lookup.setdefault((round(c[0], 6), round(c[1], 6), round(c[2], 6)), []).append(i)
        for e in exp_c:
            hit = lookup.get((round(e[0], 6), round(e[1], 6), round(e[2], 6)))
            if not hit:
                ok, detail = False, f"input cell centre {e} not among the merged centres"
                break
            index.append(hit[0])
        if ok and index != sorted(index):
            ok, detail = False, "input cells are not in input order in the merged model"
    rec.check("C16.drape", ok, op=where, cls="DrapeModel", attr="centroids", detail=detail)
    # the two ways the format names a cell's prism agree: the prism column of the layers, and the (first layer, count) of the prisms
    pr, ly = np.asarray(merged.prisms), np.asarray(merged.layers)
    bad = []
    for i, p in enumerate(pr.tolist()):
        first, count = int(p[3]), int(p[4])
        col = ly[first: first + count, 0].astype(int).tolist()
        if col != [i] * count:
            bad.append((i, first, count, col))
    rec.check("C16.drape", not bad, op=where, cls="DrapeModel", attr="prism-column", detail=f"{len(spec['inputs'])} inputs merged: prisms (index, first layer, count, prism column of those layers) {bad[:4]}")
    rec.check("C16.drape", merged.n_cells == len(exp_c) + 2 * (len(spec["inputs"]) - 1), op=where, cls="DrapeModel", attr="ghost-count", detail=f"{merged.n_cells} merged cells for {len(exp_c)} input cells and {len(spec['inputs']) - 1} joins")
    if ok:
        from geoh5py.shared import INTEGER_NDV

        judge_data(rec, merged, spec, "DrapeModel", INTEGER_NDV, where, cell_count=len(exp_c), cell_index=index)
        rec.evals["C16.cell-coords"] += len(exp_c)
