"""C20 — linked surveys stay mutually consistent.

Pairs are discovered reflectively (classes exposing default_receiver_type / default_transmitter_type,
tipper receivers / base stations, potential / current electrodes).  For each pair and both linking
directions seeded histories of shared-parameter edits through either side, re-opens and copies
(plain, other group, other workspace, copy of a copy) are executed.  After every step: both
entities carry the same metadata naming both identifiers, partner getters return the partner by
identity, the raw 'Metadata' datasets of both nodes agree and hold both uid strings, after re-open
the getters resolve, and a copy brings a partner copy linked to it and not to the originals."""
from __future__ import annotations

import gc
import inspect
import json
import os
import random
import shutil
import tempfile
import uuid
import warnings

import h5py
import numpy as np

from ..core import canon, exc_origin, short

PROP = "C20"
LEVEL = "exploration"
RULE = (
    "case = one (pair, linking direction) with a seeded history of 6-16 steps: edits of shared parameters through either "
    "side (channels, unit, input type, loop radius / offsets as value or data uid, timing mark, waveform, component property "
    "groups, transmitter-id / A-B cell-id properties), re-opens, copies (same parent, other group, other workspace, copy of "
    "a copy). All discovered pairs x both directions are enumerated; histories are seeded. Non-trivial = >= 1 re-open and >= 1 "
    "copy judged; distinct = (pair, direction, step kinds)."
)
ASSUMPTIONS = [
    "large-loop pairs get a transmitter-id property on both sides before copying; DC pairs get A-B cell ids",
    "MT receivers have no partner and are covered for persistence only",
]


def discover_pairs():
    """[(name, receiver class name, partner class name, kind)]"""
    from geoh5py import objects

    pairs = []
    for name, cls in inspect.getmembers(objects, inspect.isclass):
        if inspect.isabstract(cls) or not name.endswith("Receivers"):
            continue
        if name == "TipperReceivers":
            pairs.append(("Tipper", "TipperReceivers", "TipperBaseStations", "tipper"))
            continue
        if name == "MTReceivers":
            continue
        tx = name.replace("Receivers", "Transmitters")
        if hasattr(objects, tx):
            pairs.append((name.replace("Receivers", ""), name, tx, "large" if "LargeLoop" in name else "em"))
    pairs.append(("DirectCurrent", "PotentialElectrode", "CurrentElectrode", "dc"))
    return sorted(pairs)


def floors(tier):
    return {"pairs-x-directions": 16, "C20.asymmetric": 400, "C20.getter": 400, "C20.file": 200, "C20.reopen": 40, "C20.copy-link": 60, "steps:edit": 150, "steps:copy": 50, "steps:reopen": 40}


def EXHAUSTIVE(tier):
    return "all discovered survey class pairs x both linking directions"


def gen_cases(tier, seed):
    reps = 8 if tier == "quick" else 80
    cases = []
    for pair in discover_pairs():
        for direction in ("from-receivers", "from-partner", "at-creation", "metadata-text"):
            for rep in range(reps if direction in ("from-receivers", "from-partner") else max(reps // 2, 2)):
                cases.append({"kind": "pair", "pair": list(pair), "direction": direction, "steps": 6 + (rep % 4) * 3 if tier == "quick" else 8 + (rep % 5) * 3, "rep": rep})
    return cases


# ------------------------------------------------------------------------------------------
def build_pair(ws, pair, rng, parent=None, link_at_creation=False):
    from geoh5py import objects

    name, rxn, txn, kind = pair
    kw = {"parent": parent} if parent is not None else {}
    partner_kw = {"dc": "current_electrodes", "tipper": "base_stations"}.get(kind, "transmitters")
    if kind == "large":
        vertices, tx_loops, tx_id, tx_cells, count = [], [], [], [], 0
        for ind in range(2):
            off = 500.0 * ind
            x = np.linspace(-100, 100, 4)
            vertices.append(np.c_[x, np.zeros_like(x) + off, np.zeros_like(x)])
            tx_id.append(np.ones_like(x) * (ind + 1))
            loc = np.r_[np.c_[-10, -10], np.c_[-10, 10], np.c_[10, 10], np.c_[10, -10]]
            tx_loops.append(np.c_[loc[:, 0], loc[:, 1] + off, np.zeros(4)])
            tx_cells += [np.c_[np.arange(3) + count, np.arange(3) + count + 1], np.c_[count + 3, count]]
            count += 4
        rx = getattr(objects, rxn).create(ws, vertices=np.vstack(vertices), name="rx", **kw)
        tx = getattr(objects, txn).create(ws, vertices=np.vstack(tx_loops), cells=np.vstack(tx_cells), name="tx", **kw)
        return rx, tx, {"tx_id": np.hstack(tx_id)}
    if kind == "dc":
        n = 8
        x, y = np.meshgrid(np.arange(n), np.arange(0, 2))
        vertices = np.c_[x.ravel(), y.ravel(), np.zeros(2 * n)].astype(float)
        parts = np.kron(np.arange(2), np.ones(n)).astype("int")
        currents = getattr(objects, txn).create(ws, name="currents", vertices=vertices, parts=parts, **kw)
        currents.add_default_ab_cell_id()
        dipoles, cid = [], []
        for val in currents.ab_cell_id.values:
            cell = int(currents.ab_map[val]) - 1
            ids = currents.cells[cell, :] + 2
            if any(ids > len(vertices) - 1) or len(np.unique(parts[ids])) > 1:
                continue
            dipoles.append(ids)
            cid.append(val)
        pkw = {partner_kw: currents} if link_at_creation else {}
        potentials = getattr(objects, rxn).create(ws, name="potentials", vertices=vertices, cells=np.vstack(dipoles).astype("uint32"), **kw, **pkw)
        return potentials, currents, {"ab": np.hstack(cid).astype("int32")}
    n = 6
    verts = np.c_[np.linspace(0, 50, n), np.zeros(n), np.zeros(n)]
    if link_at_creation:
        tx = getattr(objects, txn).create(ws, vertices=verts + (5.0 if kind != "tipper" else 0.0), name="tx", **kw)
        rx = getattr(objects, rxn).create(ws, vertices=verts, name="rx", **kw, **{partner_kw: tx})
        return rx, tx, {}
    rx = getattr(objects, rxn).create(ws, vertices=verts, name="rx", **kw)
    tx = getattr(objects, txn).create(ws, vertices=verts + (5.0 if kind != "tipper" else 0.0), name="tx", **kw)
    return rx, tx, {}


def link(pair, rx, tx, direction, extra):
    kind = pair[3]
    if kind == "dc":
        if direction == "from-receivers":
            rx.current_electrodes = tx
        else:
            tx.potential_electrodes = rx
        rx.ab_cell_id = extra["ab"]
        return
    if kind == "tipper":
        if direction == "from-receivers":
            rx.base_stations = tx
        else:
            tx.receivers = rx
        return
    if direction == "from-receivers":
        rx.transmitters = tx
    else:
        tx.receivers = rx
    if kind == "large":
        tx.tx_id_property = tx.parts + 1
        rx.tx_id_property = extra["tx_id"]


def partner_of(pair, e, role):
    """The partner through the public getter; role is 'rx' or 'tx' of e."""
    kind = pair[3]
    if kind == "dc":
        return e.current_electrodes if role == "rx" else e.potential_electrodes
    if kind == "tipper":
        return e.base_stations if role == "rx" else e.receivers
    return e.transmitters if role == "rx" else e.receivers


def meta_keys(pair):
    kind = pair[3]
    if kind == "dc":
        return None, "Potential Electrodes", "Current Electrodes"
    if kind == "tipper":
        return "EM Dataset", "Receivers", "Base stations"
    return "EM Dataset", "Receivers", "Transmitters"


def raw_metadata(ws, e):
    h5 = ws.geoh5
    base = list(h5)[0]
    node = h5[base]["Objects"]["{" + str(e.uid) + "}"]
    if "Metadata" not in node:
        return None
    raw = node["Metadata"][()]
    raw = raw[0] if isinstance(raw, np.ndarray) else raw
    return json.loads(raw.decode() if isinstance(raw, bytes) else raw)


def judge_pair(rec, ws, pair, rx, tx, where, attr=""):
    """Symmetry, getters and file clauses for one linked pair."""
    cls = pair[0]
    section, krx, ktx = meta_keys(pair)
    own = ("Coordinate Reference System",)  # what an entity says about itself, not about the pair
    mr, mt = ({k: v for k, v in (m or {}).items() if k not in own} for m in (rx.metadata, tx.metadata))
    rec.check("C20.asymmetric", canon(mr) == canon(mt), op=where, cls=cls, attr=attr or "metadata", detail=f"metadata differ between the partners: rx {short(canon(mr), 300)} tx {short(canon(mt), 300)}")
    body = (mr or {}).get(section, {}) if section else (mr or {})
    ok_ids = str(body.get(krx)) == str(rx.uid) and str(body.get(ktx)) == str(tx.uid)
    rec.check("C20.asymmetric", ok_ids, op=where, cls=cls, attr="identifiers", detail=f"receiver-side metadata names {body.get(krx)} / {body.get(ktx)}, expected {rx.uid} / {tx.uid}")
    body_t = (mt or {}).get(section, {}) if section else (mt or {})
    ok_t = str(body_t.get(krx)) == str(rx.uid) and str(body_t.get(ktx)) == str(tx.uid)
    rec.check("C20.asymmetric", ok_t, op=where, cls=cls, attr="identifiers-partner", detail=f"partner-side metadata names {body_t.get(krx)} / {body_t.get(ktx)}, expected {rx.uid} / {tx.uid}")
    comps = getattr(rec, "c20_components", None)
    if comps:
        listed = [str(x) for x in ((rx.metadata or {}).get(section, {}) or {}).get("Property groups", [])]
        have = {pg.name for pg in (rx.property_groups or [])} | {str(pg.uid) for pg in (rx.property_groups or [])}
        rec.check("C20.file", all(c in listed or any(x in have for x in listed) and len(listed) >= len(comps) for c in comps), op=where, cls=cls, attr="components", detail=f"the receivers carry the components {comps}; their metadata lists {listed}")
    rec.check("C20.getter", partner_of(pair, rx, "rx") is tx, op=where, cls=cls, attr="from-receivers", detail=f"receivers' partner getter returns {partner_of(pair, rx, 'rx')!r}, not the linked partner")
    rec.check("C20.getter", partner_of(pair, tx, "tx") is rx, op=where, cls=cls, attr="from-partner", detail=f"partner's getter returns {partner_of(pair, tx, 'tx')!r}, not the linked receivers")
    try:
        fr, ft = raw_metadata(ws, rx), raw_metadata(ws, tx)
    except Exception:  # noqa: BLE001
        return
    if isinstance(fr, dict) and isinstance(ft, dict):
        fr, ft = ({k: v for k, v in m.items() if k not in own} for m in (fr, ft))
    same = fr == ft and fr is not None
    txt = json.dumps(fr or {})
    both = str(rx.uid) in txt and str(tx.uid) in txt
    rec.check("C20.file", same and both, op=where, cls=cls, attr=attr or "Metadata", detail=f"stored Metadata: rx {short(fr, 250)} tx {short(ft, 250)} (must be equal and hold both identifiers)")


def edits_for(pair, rx):
    """Menu of shared-parameter edits available on this pair: (name, value factory)."""
    kind = pair[3]
    if kind == "dc":
        return []
    menu = [("channels", lambda rng, e: sorted(rng.sample([1.0, 2.0, 5.0, 10.0, 30.0, 100.0], 3)))]
    def safe(e, name):
        try:
            return list(getattr(e, name) or [])
        except AttributeError:
            return []  # some classes lack the private table behind this getter (outside this property)

    if safe(rx, "default_units"):
        menu.append(("unit", lambda rng, e: rng.choice(safe(e, "default_units") or [None])))
    if safe(rx, "default_input_types"):
        menu.append(("input_type", lambda rng, e: rng.choice(safe(e, "default_input_types") or [None])))
    for attr in ("loop_radius", "timing_mark"):
        if hasattr(type(rx), attr):
            menu.append((attr, lambda rng, e: rng.choice([1.5, 12.5, 100.0])))
    for attr in ("inline_offset", "crossline_offset", "vertical_offset", "pitch", "yaw"):
        if hasattr(type(rx), attr):
            menu.append((attr, lambda rng, e: rng.choice([3.0, -2.5, "data"])))
    if hasattr(type(rx), "waveform"):
        menu.append(("waveform", lambda rng, e: np.array([[0.0, 0.0], [1.0, 1.0], [rng.choice([2.0, 3.0]), 0.0]])))
    if hasattr(type(rx), "relative_to_bearing"):
        menu.append(("relative_to_bearing", lambda rng, e: rng.random() < 0.5))
    return menu


def cold_edit(rec, ws, pair, rx, tx, rng, menu, expected, where):
    """Edit a shared parameter through one side *before* any partner getter was read on it (cold cache)."""
    if not menu:
        return
    name, make = rng.choice([m for m in menu if m[0] in ("channels", "unit", "loop_radius", "timing_mark")] or menu)
    side_name = rng.choice(["rx", "tx"])
    side = rx if side_name == "rx" else tx
    val = make(rng, side)
    if val is None or (isinstance(val, str) and val == "data"):
        return
    try:
        setattr(side, name, val)
    except Exception as exc:  # noqa: BLE001
        if not exc_origin(exc)[0]:
            raise
        return
    rec.see("cold-cache-edits")
    expected[name] = canon(val)
    for who, e in (("rx", rx), ("tx", tx)):
        try:
            got = canon(getattr(e, name))
        except Exception as exc:  # noqa: BLE001
            got = f"<raises {type(exc).__name__}>"
        rec.check("C20.asymmetric", got == expected[name], op=f"{where}:cold-edit-through-{side_name}", cls=pair[0], attr=name, detail=f"{name} set through {side_name} (partner not yet resolved on that side) to {short(expected[name])}, {who} reads {short(got)}")
    try:
        fr, ft = raw_metadata(ws, rx), raw_metadata(ws, tx)
        rec.check("C20.file", fr == ft and fr is not None, op=f"{where}:cold-edit-through-{side_name}", cls=pair[0], attr=name, detail=f"stored Metadata differ after the edit: rx {short(fr, 200)} tx {short(ft, 200)}")
    except KeyError:
        pass


def run_case(case, rec):
    from geoh5py.groups import ContainerGroup
    from geoh5py.workspace import Workspace

    warnings.simplefilter("ignore")
    rng = random.Random(case["seed"])
    pair, direction = tuple(case["pair"]), case["direction"]
    d = tempfile.mkdtemp(prefix="gvm_")
    steps = []
    ws = ws2 = None
    try:
        path, path2 = os.path.join(d, "s.geoh5"), os.path.join(d, "t.geoh5")
        ws = Workspace.create(path)
        ws2 = Workspace.create(path2)
        home = ContainerGroup.create(ws, name="home")
        other = ContainerGroup.create(ws, name="other")
        if direction == "at-creation" and pair[3] not in ("large", "dc"):  # a potential electrode cannot name its partner before it is registered itself (the library refuses with a KeyError): linked afterwards
            # the partner is named in the call that creates the entity (the link is made while the entity is being built)
            rx, tx, extra = build_pair(ws, pair, rng, parent=home, link_at_creation=True)
            rec.see("links-made-at-creation")
        elif direction == "metadata-text" and pair[3] in ("em", "tipper"):
            # the link written through the metadata entry point, the partner's identifier given as text (as it comes out of
            # a json document), with or without braces
            rx, tx, extra = build_pair(ws, pair, rng, parent=home)
            key = "Base stations" if pair[3] == "tipper" else "Transmitters"
            text = str(tx.uid) if case["rep"] % 2 else "{" + str(tx.uid) + "}"
            rx.edit_em_metadata({key: text})
            rec.see("links-made-through-metadata-text")
        else:
            rx, tx, extra = build_pair(ws, pair, rng, parent=home)
            link(pair, rx, tx, direction if direction in ("from-receivers", "from-partner") else "from-receivers", extra)
        if pair[3] == "dc" and case["rep"] % 3 == 0:
            # projects that went through ANALYST carry a coordinate reference system: a nested section next to the flat link keys
            side = rng.choice([rx, tx])
            side.coordinate_reference_system = {"Code": "EPSG:26917", "Name": "NAD83 / UTM zone 17N"}
            rec.see("electrodes-with-crs")
        rec.see("pairs-x-directions") if case["rep"] == 0 else None
        menu = edits_for(pair, rx)
        expected = {}
        components = []
        if pair[3] == "em" and case["rep"] % 3 == 1:
            # measured components on the receivers: one data set per channel, grouped; the survey's metadata lists the groups
            try:
                rx.channels = [1.0, 2.0, 3.0]
                dat = rx.add_data({f"ch{c}": {"values": np.arange(rx.n_vertices, dtype=float) + c} for c in (1, 2, 3)})
                rx.add_components_data({"dbdt z": dat})
                components = ["dbdt z"]
                expected["channels"] = canon([1.0, 2.0, 3.0])
                rec.see("pairs-with-components")
                rec.c20_components = components
            except Exception as exc:  # noqa: BLE001
                if not exc_origin(exc)[0]:
                    raise
                rec.see("components-refused:" + type(exc).__name__)
        if case["rep"] % 2 == 1:
            cold_edit(rec, ws, pair, rx, tx, rng, menu, expected, "after-link")
        judge_pair(rec, ws, pair, rx, tx, "link:" + direction)
        n_copy = n_reopen = 0
        for step in range(case["steps"]):
            kinds = ["edit"] * 4 + ["reopen", "copy", "copy"] + (["relink"] if pair[3] in ("em", "tipper") else []) + (["refused-relink"] if pair[3] == "tipper" and np.asarray(tx.vertices).shape[0] > 2 else []) if menu else ["reopen", "copy", "copy", "touch"] + (["third-electrode"] * 2 if pair[3] == "dc" else [])
            k = rng.choice(kinds)
            if k == "edit":
                name, make = rng.choice(menu)
                side_name = rng.choice(["rx", "tx"])
                side = rx if side_name == "rx" else tx
                val = make(rng, side)
                if val is None:
                    continue
                if isinstance(val, str) and val == "data":
                    dat = side.add_data({f"ang{step}": {"values": np.arange(side.n_vertices, dtype=float)}})
                    val = dat.uid
                steps.append(("edit", name, side_name))
                rec.see("steps:edit")
                whole = name == "unit" and pair[3] != "dc" and rng.random() < 0.5
                try:
                    if whole:
                        # the same edit made by assigning the whole metadata dictionary (what a script that read it from
                        # a json document does)
                        import copy

                        md = copy.deepcopy(side.metadata)
                        md["EM Dataset"]["Unit"] = val
                        side.metadata = md
                        rec.see("edits-by-assigning-the-metadata")
                    else:
                        setattr(side, name, val)
                except Exception as exc:  # noqa: BLE001
                    if not exc_origin(exc)[0]:
                        raise
                    rec.see("edits-rejected")
                    continue
                expected[name] = canon(val)
                # visible on both sides
                for who, e in (("rx", rx), ("tx", tx)):
                    try:
                        got = canon(getattr(e, name))
                    except Exception as exc:  # noqa: BLE001
                        got = f"<raises {type(exc).__name__}>"
                    rec.check("C20.asymmetric", got == expected[name], op=f"edit-through-{side_name}", cls=pair[0], attr=name, detail=f"{name} set through {side_name} to {short(expected[name])}, {who} reads {short(got)}")
                judge_pair(rec, ws, pair, rx, tx, f"edit-through-{side_name}", attr=name)
            elif k == "refused-relink":
                from geoh5py import objects

                steps.append(("refused-relink", "rx", ""))
                rec.see("steps:refused-relink")
                bad = getattr(objects, pair[2]).create(ws, vertices=np.asarray(tx.vertices)[:2] + 3.0, name=f"bad{step}", parent=home)
                try:
                    rx.base_stations = bad
                    rec.see("refused-relink-accepted")
                    tx = bad
                except Exception as exc:  # noqa: BLE001
                    if not exc_origin(exc)[0]:
                        raise
                    rec.see("relinks-refused")
                bad = None
                judge_pair(rec, ws, pair, rx, tx, "refused-relink")
            elif k == "relink":
                from geoh5py import objects

                side_name = rng.choice(["rx", "tx"])
                steps.append(("relink", side_name, ""))
                rec.see("steps:relink")
                if side_name == "rx":
                    newp = getattr(objects, pair[2]).create(ws, vertices=np.asarray(tx.vertices) + 1.0, name=f"tx{step}", parent=home)
                    link(pair, rx, newp, "from-receivers", extra) if pair[3] != "large" else None
                    if pair[3] == "large":
                        continue
                    tx = newp
                else:
                    newp = getattr(objects, pair[1]).create(ws, vertices=np.asarray(rx.vertices) + 1.0, name=f"rx{step}", parent=home)
                    if pair[3] == "large":
                        continue
                    link(pair, newp, tx, "from-partner", extra)
                    rx = newp
                judge_pair(rec, ws, pair, rx, tx, "relink-through-" + side_name)
            elif k == "third-electrode":
                # one side is linked to a third set of electrodes, then the original link is made again from one side:
                # both records must name each other again (the last link made wins on both entities)
                from geoh5py import objects

                side_name = rng.choice(["rx", "tx"])
                back_from = rng.choice(["from-receivers", "from-partner"])
                steps.append(("third-electrode", side_name, back_from))
                rec.see("steps:third-electrode")
                if side_name == "tx":  # the current electrodes are given other potential electrodes
                    third = getattr(objects, pair[1]).create(ws, vertices=np.asarray(rx.vertices) + 2.0, cells=np.asarray(rx.cells), name=f"rx-third{step}", parent=home)
                    tx.potential_electrodes = third
                    third.ab_cell_id = np.asarray(rx.ab_cell_id.values).copy()
                else:
                    third = getattr(objects, pair[2]).create(ws, vertices=np.asarray(tx.vertices) + 2.0, cells=np.asarray(tx.cells), name=f"tx-third{step}", parent=home)
                    third.add_default_ab_cell_id()
                    rx.current_electrodes = third
                if rng.random() < 0.35:
                    # the new link stays: the third set of electrodes is the partner from now on
                    if side_name == "tx":
                        rx = third
                    else:
                        tx = third
                    del third
                    rec.see("links-moved-to-a-third-electrode")
                    judge_pair(rec, ws, pair, rx, tx, "link-moved-through-" + side_name)
                    continue
                if back_from == "from-receivers":
                    rx.current_electrodes = tx
                else:
                    tx.potential_electrodes = rx
                del third
                judge_pair(rec, ws, pair, rx, tx, "link-again-" + back_from + "-after-third-through-" + side_name)
            elif k == "touch":
                steps.append(("touch", "", ""))
                rx.name = f"rx{step}"
                judge_pair(rec, ws, pair, rx, tx, "rename")
            elif k == "reopen":
                steps.append(("reopen", "", ""))
                rec.see("steps:reopen")
                n_reopen += 1
                ur, ut = rx.uid, tx.uid
                ws.close()
                ws.open()
                home, other = ws.get_entity(home.uid)[0], ws.get_entity(other.uid)[0]
                if rng.random() < 0.5:
                    rx, tx = ws.get_entity(ur)[0], ws.get_entity(ut)[0]
                    cold_edit(rec, ws, pair, rx, tx, rng, menu, expected, "after-reopen")
                # resolve each side on its own, partner first through the getter (cold caches)
                first = rng.choice(["rx", "tx"])
                if first == "rx":
                    rx = ws.get_entity(ur)[0]
                    got = partner_of(pair, rx, "rx")
                    rec.check("C20.reopen", got is not None and got.uid == ut, op="reopen", cls=pair[0], attr="from-receivers", detail=f"after re-open the receivers resolve partner {None if got is None else got.uid}, expected {ut}")
                    tx = ws.get_entity(ut)[0]
                else:
                    tx = ws.get_entity(ut)[0]
                    got = partner_of(pair, tx, "tx")
                    rec.check("C20.reopen", got is not None and got.uid == ur, op="reopen", cls=pair[0], attr="from-partner", detail=f"after re-open the partner resolves receivers {None if got is None else got.uid}, expected {ur}")
                    rx = ws.get_entity(ur)[0]
                for name, val in expected.items():
                    for who, e in (("rx", rx), ("tx", tx)):
                        try:
                            got = canon(getattr(e, name))
                        except Exception as exc:  # noqa: BLE001
                            got = f"<raises {type(exc).__name__}>"
                        rec.check("C20.reopen", got == val, op="reopen", cls=pair[0], attr=name, detail=f"{name} was {short(val)} before re-open, {who} reads {short(got)} after")
                judge_pair(rec, ws, pair, rx, tx, "reopen")
            else:
                target_kind = rng.choice(["same-parent", "other-group", "other-workspace"])
                side_name = rng.choice(["rx", "tx"])
                src = rx if side_name == "rx" else tx
                target = {"same-parent": None, "other-group": other, "other-workspace": ws2}[target_kind]
                steps.append(("copy", target_kind, side_name))
                rec.see("steps:copy")
                n_copy += 1
                # copy options: the partner comes along whatever the options
                opts = rng.choice([{}, {}, {"clear_cache": True}, {"copy_children": False}, {"clear_cache": True, "copy_children": False}])
                if opts:
                    target_kind += ":" + "+".join(sorted(opts))
                    rec.see("copy-options:" + "+".join(sorted(opts)))
                try:
                    new = src.copy(parent=target, **opts) if target is not None else src.copy(**opts)
                except Exception as exc:  # noqa: BLE001
                    if not exc_origin(exc)[0]:
                        raise
                    rec.fail("C20.copy-link", op=f"copy:{target_kind}", cls=pair[0], attr=f"raises:{type(exc).__name__}", detail=f"copying the {side_name} side raised {type(exc).__name__}: {exc}")
                    continue
                judge_copy(rec, pair, src, side_name, new, rx, tx, target_kind, expected)
                if rng.random() < 0.4 and new is not None:
                    # a copy of the copy
                    try:
                        new2 = new.copy()
                        n_rx = new if side_name == "rx" else partner_of(pair, new, "tx")
                        n_tx = partner_of(pair, new, "rx") if side_name == "rx" else new
                        judge_copy(rec, pair, new, side_name, new2, n_rx, n_tx, target_kind + ":copy-of-copy", expected)
                    except Exception as exc:  # noqa: BLE001
                        if not exc_origin(exc)[0]:
                            raise
                        rec.fail("C20.copy-link", op="copy-of-copy", cls=pair[0], attr=f"raises:{type(exc).__name__}", detail=f"{type(exc).__name__}: {exc}")
                # the originals are still linked to each other
                judge_pair(rec, ws, pair, rx, tx, "after-copy")
        rec.nontrivial = n_copy >= 1 and n_reopen >= 1
        rec.shape = [pair[0], direction, [s[0] + ":" + s[1] for s in steps]]
        rec.sample = {"pair": pair[0], "direction": direction, "steps": steps[:10]}
    finally:
        for w in (ws, ws2):
            try:
                if w is not None:
                    w.close()
            except Exception:  # noqa: BLE001
                pass
        shutil.rmtree(d, ignore_errors=True)
        gc.collect()


def judge_copy(rec, pair, src, side_name, new, rx, tx, where, expected):
    cls = pair[0]
    op = "copy:" + where
    if new is None:
        rec.fail("C20.copy-link", op=op, cls=cls, attr="none", detail="copy returned None")
        return
    role = side_name
    partner = partner_of(pair, new, role)
    rec.check("C20.copy-link", partner is not None, op=op, cls=cls, attr="partner-missing", detail=f"the copy of the {side_name} side has no partner")
    if partner is None:
        return
    orig_partner = tx if side_name == "rx" else rx
    rec.check("C20.copy-link", partner is not orig_partner and partner.uid != orig_partner.uid or new.workspace is not src.workspace and partner.workspace is new.workspace, op=op, cls=cls, attr="linked-to-original", detail="the copy is linked to the original partner instead of a partner copy")
    rec.check("C20.copy-link", partner.workspace is new.workspace, op=op, cls=cls, attr="partner-workspace", detail="the partner of the copy lives in another workspace than the copy")
    if new.workspace is src.workspace:
        rec.check("C20.copy-link", new.uid != src.uid and partner.uid != orig_partner.uid, op=op, cls=cls, attr="fresh-uids", detail="same-workspace copy reuses identifiers of the originals")
    back = partner_of(pair, partner, "tx" if role == "rx" else "rx")
    rec.check("C20.copy-link", back is new, op=op, cls=cls, attr="not-linked-back", detail=f"the partner copy's getter returns {None if back is None else back.uid}, not the copy {new.uid}")
    section, krx, ktx = meta_keys(pair)
    n_rx, n_tx = (new, partner) if role == "rx" else (partner, new)
    for who, e in (("copy", new), ("partner-copy", partner)):
        body = (e.metadata or {}).get(section, {}) if section else (e.metadata or {})
        ok = str(body.get(krx)) == str(n_rx.uid) and str(body.get(ktx)) == str(n_tx.uid)
        rec.check("C20.copy-link", ok, op=op, cls=cls, attr="metadata-ids", detail=f"{who} metadata names {body.get(krx)} / {body.get(ktx)}, expected the copies {n_rx.uid} / {n_tx.uid}")
    for name, val in expected.items():
        if isinstance(val, str) and val.startswith("u:"):
            continue  # offsets given as a data uid are re-mapped to the copied data
        try:
            got = canon(getattr(new, name))
        except Exception as exc:  # noqa: BLE001
            got = f"<raises {type(exc).__name__}>"
        rec.check("C20.copy-link", got == val, op=op, cls=cls, attr="param:" + name, detail=f"{name} is {short(val)} on the source but {short(got)} on the copy")
    if expected.get("timing_mark") is not None and hasattr(type(new), "timing_mark"):
        # the copies are a pair of their own: a parameter edited through the copy stays what it was on the originals
        before = (canon(rx.metadata), canon(tx.metadata))
        try:
            keep = new.timing_mark
            new.timing_mark = 0.4321
            after = (canon(rx.metadata), canon(tx.metadata))
            rec.check("C20.copy-link", before == after, op=op, cls=cls, attr="edit-of-copy-reaches-originals", detail=f"timing_mark set on the copy changed the originals' metadata: {short(before[0], 200)} -> {short(after[0], 200)}")
            new.timing_mark = keep
            rec.see("copies-edited-next-to-originals")
        except Exception as exc:  # noqa: BLE001
            if not exc_origin(exc)[0]:
                raise
            rec.see("copy-edit-refused:" + type(exc).__name__)
    if pair[3] == "large":
        try:
            ids_rx = set(np.unique(n_rx.tx_id_property.values).tolist())
            ids_tx = set(np.unique(n_tx.tx_id_property.values).tolist())
            rec.check("C20.copy-loops", ids_rx <= ids_tx, op=op, cls=cls, attr="loops", detail=f"copied receivers refer to loops {sorted(ids_rx)}, copied transmitters hold {sorted(ids_tx)}")
        except Exception as exc:  # noqa: BLE001
            rec.fail("C20.copy-loops", op=op, cls=cls, attr=type(exc).__name__, detail=f"reading tx_id_property of the copies raised {exc}")
