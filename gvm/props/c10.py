"""C10 — read-only workspaces never change the file.

Differential monitor.  Every program is issued twice: on the workspace under test, opened mode='r' on the seed
file, and on a twin opened 'r+' on a scratch copy.  The twin is instrumented (harness-side wrapper around
Workspace._io_call) to count write-mode storage calls, which decides -- without a hand-written table --
whether the call "would have to write".  Oracles on the read-only side after every call: SHA-256 of the file,
its size / mtime / inode, the h5py handle mode, the open-flags of every descriptor of this process that points
at the file (/proc/self/fdinfo), and -- when the twin wrote and accepted the call -- that the call raised.
At close: bytes unchanged and no h5repack invocation on the source (a logging stand-in for h5repack is put on
PATH, because the real tool would rewrite the file)."""
from __future__ import annotations

import gc
import hashlib
import inspect
import json
import os
import random
import shutil
import tempfile
import uuid
import warnings

import numpy as np

from .. import gen
from ..core import exc_origin, seed_all, short
from . import c03

PROP = "C10"
LEVEL = "exploration"
RULE = (
    "case = one subject entity (every concrete class, data kind, type, property group, concatenated hole / data, the workspace) x one program family "
    "(getters, setters, structure, methods) or one seeded mixed history or one helper scenario; non-trivial = >= 5 calls judged with the file hashed after each; "
    "distinct = (family, subject class, calls issued)."
)
ASSUMPTIONS = [
    "'would have to write' is decided by the twin: the same call on an r+ copy issued at least one write-mode storage call and was accepted",
    "an explicit request for a writable handle (Workspace.open(mode='r+'), fetch_active_workspace(ws, mode='r+')) is not a silent switch and is not issued",
    "a getter that raises in read-only mode because it wants to write lazily is counted, not failed: the statement asks for an error, and it gets one",
]
FAMILIES = ["getters", "setters", "structure", "methods"]
_SEED = {}


def floors(tier):
    return {"calls-judged": 4000, "C10.bytes": 4000, "C10.mode": 4000, "C10.must-raise": 1200, "twin-writers": 1200, "C10.close": 250, "helper-scenarios": 20, "history-steps": 800}


def gen_cases(tier, seed):
    cases = []
    subjects = subject_list()
    reps = 1 if tier == "quick" else 4
    for r in range(reps):
        for sk in subjects:
            for fam in FAMILIES:
                cases.append({"kind": "family", "family": fam, "subject": sk, "rep": r})
    for i in range(60 if tier == "quick" else 400):
        cases.append({"kind": "history", "n_ops": [10, 20, 40][i % 3], "i": i})
    for i in range(100 if tier == "quick" else 400):
        cases.append({"kind": "helper", "scenario": ["ui_json_read", "monitored_copy", "copy_out", "context_manager", "fetch_active", "ui_json_write", "elevate_then_default", "ui_json_then_default", "fallback_read_only", "helper_requests_read", "save_as_read_only", "read_session_of_writable_workspace", "reader_next_to_writer"][i % 13], "i": i})
    return cases


def subject_list():
    classes = gen.concrete_entity_classes()
    out = [f"object:{c}" for c in gen.ALL_OBJECTS] + [f"group:{c}" for c in classes["groups"]]
    out += [f"data:{k}" for k in ["float", "integer", "boolean", "referenced", "text_object", "filename", "comments"]]
    out += ["type:DataType", "type:ObjectType", "type:GroupType", "pg:PropertyGroup", "header:Workspace", "concat:ConcatenatedDrillhole", "concat:ConcatenatedData", "concat:Concatenator", "concat:ConcatenatedPropertyGroup"]
    return out


# ------------------------------------------------------------------------------------------------------
def seed_file(want="rich"):
    """Seed files per worker process: 'rich' holds every class (histories, helpers); a subject key gives a small file with
    that subject and the fixed neighbours the programs refer to (so that a fresh twin and a fresh read-only session per call are cheap)."""
    if want in _SEED:
        return _SEED[want]
    from geoh5py.data.color_map import ColorMap
    from geoh5py.groups import ContainerGroup, DrillholeGroup
    from geoh5py.objects import Drillhole, Points
    from geoh5py.workspace import Workspace

    state = random.getstate(), np.random.get_state()
    seed_all(424242)
    rng = random.Random(7)
    if "dir" not in _SEED:
        import atexit

        _SEED["dir"] = tempfile.mkdtemp(prefix="gvm_c10seed_")
        atexit.register(shutil.rmtree, _SEED["dir"], True)
    path = os.path.join(_SEED["dir"], f"seed_{os.getpid()}_{len(_SEED)}.geoh5")  # unique base name: the library repacks through tempdir/<basename>
    index = {}
    rich = want == "rich"
    ws = Workspace.create(path)
    root_g = ContainerGroup.create(ws, name="holder group")
    other = gen.group_class("ContainerGroup").create(ws, name="g_ContainerGroup")
    index["group:ContainerGroup"] = str(other.uid)
    for i, c in enumerate(gen.ALL_OBJECTS):
        if not rich and want != f"object:{c}" and c != "Curve":
            continue
        o = gen.build_object(ws, c, parent=root_g if i % 2 else None, rng=rng, name=f"o{i}_{c}", base=100 * i)
        index[f"object:{c}"] = str(o.uid)
        made = []
        for a in gen.associations_for(o):
            if a == "OBJECT":
                continue
            spec, _ = gen.data_spec(o, "float", a, rng, tag=i)
            made.append(o.add_data({f"f_{a}_{i}": spec}))
        if len(made) >= 1:
            o.add_data_to_group(made[:1], f"pg{i}")
    for c in gen.concrete_entity_classes()["groups"]:
        if c == "ContainerGroup" or (not rich and want != f"group:{c}"):
            continue
        g = gen.group_class(c).create(ws, name=f"g_{c}")
        if c in ("SimPEGGroup", "UIJsonGroup"):
            g.options = {"seed": 0}
        index[f"group:{c}"] = str(g.uid)
    pts = Points.create(ws, vertices=gen.tagged_vertices(6, 0, rng), name="data holder", parent=root_g)
    index["object:Points"] = index.get("object:Points", str(pts.uid))
    for k in ["float", "integer", "boolean", "referenced", "text_object"]:
        spec, _ = gen.data_spec(pts, k, "VERTEX" if k != "text_object" else "OBJECT", rng, tag=3)
        index[f"data:{k}"] = str(pts.add_data({f"d_{k}": spec}).uid)
    index["data:filename"] = str(pts.add_file(b"some bytes", name="file.bin").uid)
    pts.add_comment("a comment", author="me")
    index["data:comments"] = str(pts.comments.uid)
    flt = ws.get_entity(uuid.UUID(index["data:float"]))[0]
    flt.entity_type.color_map = ColorMap(values=np.c_[np.linspace(0, 1, 4), np.arange(4) * 10, np.arange(4) * 20, np.arange(4) * 30, np.ones(4) * 255])
    index["type:DataType"] = index["data:referenced"]
    index["type:ObjectType"] = str(pts.uid)
    index["type:GroupType"] = str(root_g.uid)
    more = pts.add_data({"pa": {"values": np.arange(6.0)}, "pb": {"values": np.arange(6.0) * 2}})
    pts.add_data_to_group(more, "the group")
    index["pg:PropertyGroup"] = str(pts.uid)
    index["header:Workspace"] = ""
    if rich or want.startswith("concat:"):
        dh = DrillholeGroup.create(ws, name="DH", parent=root_g)
        for i in range(2):
            h = Drillhole.create(ws, parent=dh, name=f"hole{i}", collar=[float(i), 0.0, 10.0], surveys=np.array([[0.0, 0.0, -90.0], [20.0, 10.0, -80.0]]))
            dd = h.add_data({"assay": {"depth": np.arange(4.0) + 0.5, "values": np.arange(4.0) + 10 * i}, "assay2": {"depth": np.arange(4.0) + 0.5, "values": np.arange(4.0) + 20 * i}}, property_group="dtab")[0]
        index["concat:ConcatenatedDrillhole"] = str(h.uid)
        index["concat:ConcatenatedData"] = f"{h.uid}/{dd.uid}"
        index["concat:Concatenator"] = str(dh.uid)
        index["concat:ConcatenatedPropertyGroup"] = f"{h.uid}/pg"
    ws.close()
    random.setstate(state[0])
    np.random.set_state(state[1])
    _SEED[want] = (path, index)
    return path, index


def find(ws, key, index):
    """The subject of a case inside an open workspace."""
    kind = key.split(":")[0]
    ref = index[key]
    if kind == "header":
        return ws
    if "/" in ref:
        hole = ws.get_entity(uuid.UUID(ref.split("/")[0]))[0]
        if ref.endswith("/pg"):
            return hole.property_groups[0]
        return hole.get_entity(uuid.UUID(ref.split("/")[1]))[0]
    e = ws.get_entity(uuid.UUID(ref))[0]
    if kind == "type":
        return e.entity_type
    if kind == "pg":
        return e.property_groups[0]
    return e


# ------------------------------------------------------------------------------------------------------
class FileWatch:
    """Byte-level and descriptor-level observations of one file."""

    def __init__(self, path):
        self.path = os.path.realpath(path)
        self.h0 = self.sha()
        st = os.stat(self.path)
        self.st0 = (st.st_size, st.st_mtime_ns, st.st_ino)

    def sha(self):
        with open(self.path, "rb") as f:
            return hashlib.sha256(f.read()).hexdigest()

    def writable_fds(self):
        out = []
        for fd in os.listdir("/proc/self/fd"):
            try:
                if os.path.realpath(os.readlink(f"/proc/self/fd/{fd}")) != self.path:
                    continue
                with open(f"/proc/self/fdinfo/{fd}") as f:
                    flags = [ln for ln in f if ln.startswith("flags:")][0].split()[1]
                if int(flags, 8) & 3:  # O_WRONLY or O_RDWR
                    out.append((fd, flags))
            except (OSError, IndexError):
                continue
        return out

    def judge(self, rec, ws, op, cls, attr):
        rec.check("C10.bytes", self.sha() == self.h0, op=op, cls=cls, attr=attr, detail="SHA-256 of the file changed while the workspace was open read-only")
        st = os.stat(self.path)
        rec.check("C10.bytes", (st.st_size, st.st_mtime_ns, st.st_ino) == self.st0, op=op, cls=cls, attr=attr + ":stat", detail=f"size / mtime / inode changed: {self.st0} -> {(st.st_size, st.st_mtime_ns, st.st_ino)}")
        mode = None
        try:
            mode = ws.geoh5.mode
        except Exception:  # noqa: BLE001 - closed: no handle, nothing writable
            mode = "closed"
        fds = self.writable_fds()
        rec.check("C10.mode", mode in ("r", "closed") and not fds, op=op, cls=cls, attr=attr, detail=f"handle mode {mode!r}, writable descriptors on the file: {fds}")
        rec.see("calls-judged")


class TwinCounter:
    """Counts write-mode storage calls of one workspace (harness-side wrapper, nothing edited in the repository)."""

    def __init__(self):
        from geoh5py.workspace import Workspace

        self.n = 0
        self.target = None
        self.orig = Workspace._io_call  # noqa: SLF001
        counter = self

        def wrapped(ws_self, fun, *args, mode="r", **kwargs):
            if ws_self is counter.target and mode in ("r+", "a"):
                counter.n += 1
            return counter.orig(ws_self, fun, *args, mode=mode, **kwargs)

        self.wrapped = wrapped

    def __enter__(self):
        from geoh5py.workspace import Workspace

        Workspace._io_call = self.wrapped  # noqa: SLF001
        return self

    def __exit__(self, *a):
        from geoh5py.workspace import Workspace

        Workspace._io_call = self.orig  # noqa: SLF001


def run_call(fn, ws, subject_key, index):
    """Returns (raised exception or None). Harness errors propagate."""
    try:
        fn(ws, find(ws, subject_key, index))
    except Exception as exc:  # noqa: BLE001
        if not exc_origin(exc)[0]:
            raise
        return exc
    return None


# -- programs ------------------------------------------------------------------------------------------
def getters_of(subject):
    names = []
    for n in dir(type(subject)):
        if n.startswith("_"):
            continue
        if isinstance(inspect.getattr_static(type(subject), n, None), property):
            names.append(n)
    return names


def setter_calls(subject, rng):
    calls = []
    kind_attrs = c03.settable(type(subject)) if not _is_ws(subject) else sorted(c03.HEADER_VALUES)
    extra = ["parent", "entity_type"] if hasattr(subject, "parent") and not _is_ws(subject) else []
    for attr in kind_attrs:
        vals = c03.HEADER_VALUES[attr] if _is_ws(subject) else c03.plain_values_for(subject, attr, rng, 1)
        if not vals:
            continue
        calls.append((f"set:{attr}", (lambda ws, e, a=attr, v=vals[0]: setattr(e, a, v))))
    _ = extra
    return calls


def _is_ws(x):
    return type(x).__name__ == "Workspace"


def structure_calls(subject, rng):
    from geoh5py.groups import ContainerGroup
    from geoh5py.objects import ObjectBase, Points
    from geoh5py.shared.entity import Entity

    calls = []
    if _is_ws(subject):
        calls += [("create:Points", lambda ws, e: Points.create(ws, vertices=np.zeros((3, 3)))), ("create:ContainerGroup", lambda ws, e: ContainerGroup.create(ws, name="new")),
                  ("create:all-classes", None)]
        for c in ["Curve", "Surface", "Grid2D", "BlockModel", "Octree", "DrapeModel", "Drillhole", "GeoImage", "Label", "MTReceivers", "AirborneTEMReceivers", "PotentialElectrode"]:
            calls.append((f"create:{c}", (lambda ws, e, c=c: gen.build_object(ws, c, rng=random.Random(1), name="n"))))
        calls = [c for c in calls if c[1] is not None]
        calls.append(("save_entity:root", lambda ws, e: ws.save_entity(ws.root)))
        calls.append(("remove_recursively:first-group", lambda ws, e: ws.remove_recursively(ws.groups[1])))
        calls.append(("create_entity:Data", lambda ws, e: ws.create_entity(type(ws.data[0]), entity={"name": "x", "parent": ws.objects[0], "association": "OBJECT"}, entity_type={"primitive_type": "TEXT"}, save_on_creation=True)))
        return calls
    if isinstance(subject, Entity):
        calls.append(("remove_entity", lambda ws, e: ws.remove_entity(e)))
        calls.append(("parent.remove_children", lambda ws, e: e.parent.remove_children([e])))
        calls.append(("copy:same-parent", lambda ws, e: e.copy()))
        calls.append(("copy:other-parent", lambda ws, e: e.copy(parent=[g for g in ws.groups if g.name == "holder group"][0]) if not hasattr(e, "values") else e.copy(parent=ws.objects[0])))
        calls.append(("set:parent", lambda ws, e: setattr(e, "parent", [g for g in ws.groups if g.name == "g_ContainerGroup"][0]) if not hasattr(e, "values") else setattr(e, "parent", ws.objects[1])))
        calls.append(("save_entity", lambda ws, e: ws.save_entity(e)))
        calls.append(("update_attribute:attributes", lambda ws, e: ws.update_attribute(e, "attributes")))
        calls.append(("add_comment", lambda ws, e: e.add_comment("c", author="a")))
        calls.append(("add_file", lambda ws, e: e.add_file(b"bytes", name="f.bin")))
    if isinstance(subject, ObjectBase):
        calls.append(("add_data:float", lambda ws, e: e.add_data({"nd": {"values": np.zeros(gen.n_for(e, gen.associations_for(e)[-1])), "association": gen.associations_for(e)[-1]}})))
        calls.append(("add_data:text", lambda ws, e: e.add_data({"nt": {"values": "text", "association": "OBJECT"}})))
        calls.append(("create_property_group", lambda ws, e: e.create_property_group(name="npg")))
        calls.append(("find_or_create_property_group", lambda ws, e: e.find_or_create_property_group(name="npg2")))
        calls.append(("add_data_to_group", lambda ws, e: e.add_data_to_group([c for c in e.children if hasattr(c, "values")][:1], "npg3")))
        calls.append(("remove_data_from_groups", lambda ws, e: e.remove_data_from_groups([c for c in e.children if hasattr(c, "values")][:1])))
        calls.append(("remove_children:data", lambda ws, e: e.remove_children([c for c in e.children if hasattr(c, "values")][:1])))
        calls.append(("copy_from_extent", lambda ws, e: e.copy_from_extent(np.array([[-1e9, -1e9], [1e9, 1e9]]))))
        calls.append(("remove_vertices", lambda ws, e: e.remove_vertices([0])))
        calls.append(("remove_cells", lambda ws, e: e.remove_cells([0])))
    if type(subject).__name__.endswith("PropertyGroup"):
        calls.append(("remove_entity", lambda ws, e: ws.remove_entity(e)))
        calls.append(("add_properties", lambda ws, e: e.add_properties([c for c in e.parent.children if hasattr(c, "values") and c.uid not in (e.properties or [])][:1])))
        calls.append(("remove_properties", lambda ws, e: e.remove_properties(list(e.properties)[-1:])))
        calls.append(("set:name", lambda ws, e: setattr(e, "name", "renamed group")))
    if type(subject).__name__.endswith("Type"):
        calls.append(("save_entity_type", lambda ws, e: ws.save_entity_type(e)))
        calls.append(("copy", lambda ws, e: e.copy()))
    return calls


def method_calls(subject, rng):
    """Every public method that can be called without arguments (reflective)."""
    calls = []
    for n in dir(type(subject)):
        if n.startswith("_") or n in ("close", "open", "finalize", "create", "copy", "validate", "activate", "deactivate", "save", "save_as", "copy_to_parent"):
            continue
        f = inspect.getattr_static(type(subject), n, None)
        if isinstance(f, (property, classmethod, staticmethod)) or not callable(f):
            continue
        try:
            sig = inspect.signature(f)
        except (TypeError, ValueError):
            continue
        req = [p for p in list(sig.parameters.values())[1:] if p.default is inspect.Parameter.empty and p.kind in (p.POSITIONAL_ONLY, p.POSITIONAL_OR_KEYWORD, p.KEYWORD_ONLY)]
        if req:
            continue
        calls.append((f"call:{n}", (lambda ws, e, n=n: getattr(e, n)())))
    return calls


def judge_calls(rec, case, calls, path, index, skey, label):
    """Issue each call on a fresh r+ twin (to learn whether it writes) and on a fresh read-only session of the file under
    test (so that the in-memory leftovers of one refused call cannot turn the next one into a no-op)."""
    from geoh5py.workspace import Workspace

    watch = FileWatch(path)
    d = tempfile.mkdtemp(prefix="gvm_c10_")
    issued = []

    def content_digest(p):
        """Digest of what the file holds (raw snapshot through plain h5py): insensitive to where HDF5 placed things."""
        from .. import snap
        from ..core import digest

        return digest(snap.raw_snapshot(p))

    try:
        # control: the twin opened r+ and closed with no call in between (the library re-saves the root on close)
        cpath = os.path.join(d, f"control_{os.getpid()}.geoh5")
        shutil.copyfile(path, cpath)
        Workspace(cpath, mode="r+").close()
        control = content_digest(cpath)
        os.remove(cpath)
        for name, fn in calls:
            tpath = os.path.join(d, f"twin_{os.getpid()}.geoh5")
            shutil.copyfile(path, tpath)
            twin = Workspace(tpath, mode="r+")
            with TwinCounter() as tc:
                tc.target = twin
                twin_exc = run_call(fn, twin, skey, index)
                wrote = tc.n
            try:
                twin.close()
            except Exception:  # noqa: BLE001
                pass
            deferred = False
            if os.path.exists(tpath):
                # some storage (concatenated attributes) is only written when the workspace closes: compare with the control
                if not wrote and twin_exc is None and not name.startswith("get:"):
                    try:
                        deferred = content_digest(tpath) != control
                    except Exception:  # noqa: BLE001
                        deferred = False
                os.remove(tpath)
            if deferred:
                wrote = -1
                rec.see("twin-deferred-writers")
            ro = Workspace(path, mode="r")
            try:
                ro_exc = run_call(fn, ro, skey, index)
                issued.append(name)
                watch.judge(rec, ro, name, label, "")
                if wrote and twin_exc is None:
                    rec.see("twin-writers")
                    rec.check("C10.must-raise", ro_exc is not None, op=name, cls=label, attr="", detail=f"{name} on {label}: the r+ twin " + (f"issued {wrote} write-mode storage calls" if wrote > 0 else "changed the file's content when it closed") + " and succeeded; on the read-only workspace the call returned without an error")
                elif twin_exc is not None:
                    rec.see("twin-refused")
                else:
                    rec.see("twin-read-only-call")
                if ro_exc is not None:
                    rec.see("raised:" + type(ro_exc).__name__)
            finally:
                try:
                    ro.close()
                except Exception:  # noqa: BLE001
                    pass
            judge_close(rec, watch, label, name)
    finally:
        shutil.rmtree(d, ignore_errors=True)
    return issued


def judge_close(rec, watch, label, after="close"):
    rec.check("C10.close", watch.sha() == watch.h0, op=after, cls=label, attr="bytes", detail="file bytes changed by closing the read-only workspace")
    log = os.environ.get("GVM_REPACK_LOG")
    called = []
    if log and os.path.exists(log):
        with open(log) as f:
            called = [ln for ln in f if watch.path in ln or os.path.basename(watch.path) in ln]
    rec.check("C10.close", not called, op=after, cls=label, attr="repack", detail=f"closing the read-only workspace after {after} ran h5repack on the file (the real tool rewrites it): {called[:1]}")
    if called:
        os.remove(log)
        st = os.stat(watch.path)  # the stand-in replaced the file by an identical copy: re-base the stat triple
        watch.st0 = (st.st_size, st.st_mtime_ns, st.st_ino)


def setup_fake_repack():
    here = os.path.join(os.path.dirname(os.path.dirname(os.path.dirname(os.path.abspath(__file__)))), "tools", "fakebin")
    if here not in os.environ.get("PATH", ""):
        os.environ["PATH"] = here + os.pathsep + os.environ.get("PATH", "")
    log = os.path.join(tempfile.gettempdir(), f"gvm_repack_{os.getpid()}.log")
    os.environ["GVM_REPACK_LOG"] = log
    if os.path.exists(log):
        os.remove(log)
    return log


# ------------------------------------------------------------------------------------------------------
def run_case(case, rec):
    warnings.simplefilter("ignore")
    rng = random.Random(case["seed"])
    log = setup_fake_repack()
    seed_path, index = seed_file(case["subject"] if case["kind"] == "family" else "rich")
    d = tempfile.mkdtemp(prefix="gvm_c10w_")
    path = os.path.join(d, f"w_{os.getpid()}.geoh5")
    shutil.copyfile(seed_path, path)
    try:
        if case["kind"] == "family":
            run_family(case, rec, rng, path, index)
        elif case["kind"] == "history":
            run_history(case, rec, rng, path, index)
        else:
            run_helper(case, rec, rng, path, index, d)
    finally:
        shutil.rmtree(d, ignore_errors=True)
        if os.path.exists(log):
            os.remove(log)
        gc.collect()


def calls_for(family, subject, rng):
    calls = _calls_for(family, subject, rng)
    keep = []
    for name, fn in calls:
        meth = name.split(":")[0]
        if meth in ("add_comment", "add_file", "add_data", "create_property_group", "find_or_create_property_group", "add_data_to_group", "remove_data_from_groups", "copy_from_extent", "remove_vertices", "remove_cells", "copy",
                    "add_properties", "remove_properties") and not hasattr(subject, meth):
            continue
        keep.append((name, fn))
    return keep


def _calls_for(family, subject, rng):
    if family == "getters":
        return [(f"get:{n}", (lambda ws, e, n=n: getattr(e, n))) for n in getters_of(subject)]
    if family == "setters":
        return setter_calls(subject, rng)
    if family == "structure":
        return structure_calls(subject, rng)
    return method_calls(subject, rng)


def run_family(case, rec, rng, path, index):
    from geoh5py.workspace import Workspace

    skey = case["subject"]
    with Workspace(path, mode="r") as probe:
        subject = find(probe, skey, index)
        label = type(subject).__name__
        calls = calls_for(case["family"], subject, rng)
        del subject
    if case["rep"]:
        rng.shuffle(calls)
    issued = judge_calls(rec, case, calls, path, index, skey, label)
    rec.nontrivial = len(issued) >= 5
    rec.shape = [case["family"], skey, issued]
    rec.sample = {"family": case["family"], "subject": label, "calls": issued[:12], "n_calls": len(issued)}


def run_history(case, rec, rng, path, index):
    """One read-only session, a seeded mix of calls on many subjects; in-memory state drifts as refused calls pile up."""
    from geoh5py.workspace import Workspace

    watch = FileWatch(path)
    ro = Workspace(path, mode="r")
    keys = sorted(index)
    issued = []
    try:
        for _ in range(case["n_ops"]):
            skey = rng.choice(keys)
            try:
                subject = find(ro, skey, index)
            except Exception as exc:  # noqa: BLE001 - an earlier refused call may have detached the subject in memory
                if not exc_origin(exc)[0] and not isinstance(exc, (IndexError, AttributeError, TypeError)):
                    raise
                rec.see("history-subject-gone")
                continue
            if subject is None:
                rec.see("history-subject-gone")
                continue
            fam = rng.choice(["getters", "setters", "setters", "structure", "structure", "methods"])
            try:
                calls = calls_for(fam, subject, rng)
            except Exception as exc:  # noqa: BLE001 - building values reads the subject, which an earlier call may have left unusable
                if not exc_origin(exc)[0]:
                    raise
                rec.see("history-subject-gone")
                continue
            if not calls:
                continue
            name, fn = rng.choice(calls)
            label = type(subject).__name__
            del subject
            try:
                fn(ro, find(ro, skey, index))
            except Exception as exc:  # noqa: BLE001
                if not exc_origin(exc)[0] and not isinstance(exc, (IndexError, AttributeError, TypeError, KeyError, ValueError)):
                    raise
                rec.see("raised:" + type(exc).__name__)
            issued.append(name)
            rec.see("history-steps")
            watch.judge(rec, ro, name, label, "history")
            if not ro._geoh5:  # noqa: SLF001 - the call closed the workspace: judge the close, carry on with a new read-only session
                judge_close(rec, watch, "history", name)
                rec.see("history-reopened")
                ro = Workspace(path, mode="r")
        ro.close()
        judge_close(rec, watch, "history")
    finally:
        try:
            ro.close()
        except Exception:  # noqa: BLE001
            pass
    rec.nontrivial = len(issued) >= 5
    rec.shape = ["history", issued]
    rec.sample = {"family": "history", "calls": issued[:12]}


def run_helper(case, rec, rng, path, index, d):
    """Helpers that open a workspace for reading on the user's behalf."""
    from geoh5py.shared.utils import fetch_active_workspace
    from geoh5py.ui_json import InputFile, constants, templates
    from geoh5py.ui_json.utils import monitored_directory_copy
    from geoh5py.workspace import Workspace

    sc = case["scenario"]
    watch = FileWatch(path)
    rec.see("helper-scenarios")
    label = "helper"
    obj_uid = uuid.UUID(index["object:Points"])
    data_holder = uuid.UUID(index["type:ObjectType"])
    if sc in ("ui_json_read", "ui_json_write"):
        ui = dict(constants.default_ui_json)
        ui = {k: (v.copy() if isinstance(v, dict) else v) for k, v in ui.items()}
        ui["geoh5"] = path
        ui["title"] = "t"
        ui["obj"] = templates.object_parameter(label="o", value=str(obj_uid), optional="enabled")
        ui["obj"]["meshType"] = []
        fname = os.path.join(d, "in.ui.json")
        with open(fname, "w") as f:
            json.dump({k: (str(v) if isinstance(v, uuid.UUID) else v) for k, v in ui.items()}, f)
        ifile = InputFile.read_ui_json(fname)
        watch.judge(rec, ifile.workspace if ifile.workspace is not None else Workspace.__new__(Workspace), "read_ui_json", label, sc)
        data = ifile.data
        watch.judge(rec, ifile.workspace, "InputFile.data", label, sc)
        if sc == "ui_json_write":
            ifile.write_ui_json(name="out.ui.json", path=d)
            watch.judge(rec, ifile.workspace, "write_ui_json", label, sc)
        _ = data
        try:
            ifile.workspace.close()
        except Exception:  # noqa: BLE001
            pass
        judge_close(rec, watch, label)
    elif sc == "monitored_copy":
        ro = Workspace(path, mode="r")
        for key in (rng.sample(sorted(k for k in index if k.startswith("object:")), 3)):
            e = ro.get_entity(uuid.UUID(index[key]))[0]
            out = os.path.join(d, f"mon{key.split(':')[1]}")
            os.makedirs(out, exist_ok=True)
            try:
                monitored_directory_copy(out, e)
            except Exception as exc:  # noqa: BLE001
                if not exc_origin(exc)[0]:
                    raise
                rec.see("raised:" + type(exc).__name__)
            watch.judge(rec, ro, "monitored_directory_copy", type(e).__name__, sc)
        ro.close()
        judge_close(rec, watch, label)
    elif sc == "copy_out":
        ro = Workspace(path, mode="r")
        with Workspace.create(os.path.join(d, f"other_{os.getpid()}.geoh5")) as other:
            for key in rng.sample(sorted(k for k in index if k.split(":")[0] in ("object", "group", "concat") and "/" not in index[k]), 6):
                e = ro.get_entity(uuid.UUID(index[key]))[0]
                try:
                    e.copy(parent=other)
                except Exception as exc:  # noqa: BLE001
                    if not exc_origin(exc)[0]:
                        raise
                    rec.see("raised:" + type(exc).__name__)
                watch.judge(rec, ro, "copy-to-other-workspace", type(e).__name__, sc)
            # and the other direction: the read-only workspace as the target must refuse
            src = gen.build_object(other, "Points", rng=rng, name="incoming")
            exc = None
            try:
                src.copy(parent=ro)
            except Exception as e2:  # noqa: BLE001
                if not exc_origin(e2)[0]:
                    raise
                exc = e2
            rec.check("C10.must-raise", exc is not None, op="copy-into-read-only", cls="Points", attr="", detail="copying an object from another workspace into the read-only workspace returned without an error")
            watch.judge(rec, ro, "copy-into-read-only", "Points", sc)
        ro.close()
        judge_close(rec, watch, label)
    elif sc == "context_manager":
        with Workspace(path, mode="r") as ro:
            for e in list(ro.objects)[:10] + list(ro.groups)[:5]:
                _ = [c.name for c in e.children]
            watch.judge(rec, ro, "with-block", label, sc)
            with fetch_active_workspace(ro) as same:
                rec.check("C10.mode", same.geoh5.mode == "r", op="fetch_active_workspace", cls=label, attr=sc, detail=f"fetch_active_workspace(ws) (default mode) returned a handle in mode {same.geoh5.mode!r}")
            watch.judge(rec, ro, "fetch_active_workspace", label, sc)
        judge_close(rec, watch, label)
    elif sc == "fetch_active":
        ro = Workspace(path, mode="r")
        ro.close()
        with fetch_active_workspace(ro, mode="r") as again:
            rec.check("C10.mode", again.geoh5.mode == "r", op="fetch_active_workspace:closed", cls=label, attr=sc, detail=f"re-opening a closed read-only workspace for reading gave mode {again.geoh5.mode!r}")
            e = again.get_entity(data_holder)[0]
            _ = [c.values for c in e.children if hasattr(c, "values")]
            watch.judge(rec, again, "fetch_active_workspace:closed", label, sc)
        # re-open through Workspace.open() without a mode: must come back read-only (the mode it was created with)
        ro.open()
        rec.check("C10.mode", ro.geoh5.mode == "r", op="reopen-default-mode", cls=label, attr=sc, detail=f"Workspace(mode='r').close(); .open() came back in mode {ro.geoh5.mode!r}")
        watch.judge(rec, ro, "reopen-default-mode", label, sc)
        ro.close()
        judge_close(rec, watch, label)
    elif sc == "fallback_read_only":
        # another reader holds the file: a default (r+) open falls back to read-only, and must then behave read-only
        import h5py

        holder = h5py.File(path, "r")
        try:
            ro = Workspace(path)
            mode = ro.geoh5.mode
            rec.check("C10.mode", mode == "r", op="open-falls-back", cls=label, attr=sc, detail=f"default open of a file held by a reader gave mode {mode!r}")
            e = ro.get_entity(obj_uid)[0]
            holder_obj = ro.get_entity(data_holder)[0]
            flt = [c for c in holder_obj.children if c.name == "d_float"][0]
            writes = [("rename", lambda: setattr(e, "name", "x")), ("set-values", lambda: setattr(flt, "values", np.ones(6))), ("clear-color-map", lambda: setattr(flt.entity_type, "color_map", None)),
                      ("type-units", lambda: setattr(flt.entity_type, "units", "m")), ("add_data", lambda: holder_obj.add_data({"zz": {"values": np.zeros(6)}})),
                      ("remove", lambda: ro.remove_entity([c for c in holder_obj.children if c.name == "pa"][0])), ("comment", lambda: holder_obj.add_comment("c", author="a"))]
            for wname, fn in writes:
                exc = None
                try:
                    fn()
                except Exception as e2:  # noqa: BLE001
                    if not exc_origin(e2)[0]:
                        raise
                    exc = e2
                rec.check("C10.must-raise", exc is not None, op="write-after-fallback:" + wname, cls=label, attr=sc, detail=f"{wname} returned without an error on a workspace whose open fell back to read-only")
                watch.judge(rec, ro, "write-after-fallback:" + wname, label, sc)
            ro.close()
        finally:
            holder.close()
        judge_close(rec, watch, label)
    elif sc == "save_as_read_only":
        # a workspace opened for reading is saved under another name: the same object now serves the copy, and it is still a
        # workspace its user opened read-only
        ro = Workspace(path, mode="r")
        new_path = os.path.join(d, f"saved_{os.getpid()}_{case['i']}.geoh5")
        ro.save_as(new_path)
        watch2 = FileWatch(new_path)
        rec.check("C10.mode", ro.geoh5.mode == "r", op="save_as", cls=label, attr=sc, detail=f"after save_as the read-only workspace holds the copy in mode {ro.geoh5.mode!r}")
        e = ro.get_entity(obj_uid)[0]
        from geoh5py.objects import Points

        writes = [("rename", lambda: setattr(e, "name", "x")), ("create", lambda: Points.create(ro, vertices=np.zeros((2, 3)), name="new")), ("remove", lambda: ro.remove_entity(ro.get_entity(obj_uid)[0]))]
        for wname, fn in writes:
            exc = None
            try:
                fn()
            except Exception as e2:  # noqa: BLE001
                if not exc_origin(e2)[0]:
                    raise
                exc = e2
            rec.check("C10.must-raise", exc is not None, op="write-after-save_as:" + wname, cls=label, attr=sc, detail=f"{wname} returned without an error on the copy held by a workspace that was opened read-only")
            watch2.judge(rec, ro, "write-after-save_as:" + wname, label, sc)
        e = None
        ro.close()
        judge_close(rec, watch2, label, "save_as")
        rec.check("C10.bytes", watch.sha() == watch.h0, op="save_as", cls=label, attr=sc + ":original", detail="save_as changed the file it was read from")
    elif sc == "reader_next_to_writer":
        # the same process holds the file through a writable workspace; a second workspace object opens it for reading: what goes
        # through the reader is refused like in any read-only session (HDF5 itself hands the reader a handle in the writer's mode)
        writer = Workspace(path)
        try:
            ro = Workspace(path, mode="r")
            rec.see("reader-handle-mode:" + ro.geoh5.mode)
            if (case["i"] // 13) % 2 == 0:
                # the `with ws.open():` idiom on a workspace that is open already: a warning, and the session stays what it was
                if (case["i"] // 26) % 2 == 0:
                    ro.open()
                else:
                    ro.open(mode="r+")
                rec.see("redundant-open-on-the-reader")
            e = ro.get_entity(obj_uid)[0]
            from geoh5py.objects import Points

            writes = [("rename", lambda: setattr(e, "name", "x")), ("create", lambda: Points.create(ro, vertices=np.zeros((2, 3)), name="new")), ("remove", lambda: ro.remove_entity(ro.get_entity(obj_uid)[0])), ("header", lambda: setattr(ro, "ga_version", "9.9"))]
            for wname, fn in [w for w in writes for _ in (0, 1)]:  # every attempt is made twice: a refused call has no lasting effect
                exc = None
                try:
                    fn()
                except Exception as e2:  # noqa: BLE001
                    if not exc_origin(e2)[0]:
                        raise
                    exc = e2
                rec.check("C10.must-raise", exc is not None, op="write-through-reader:" + wname, cls=label, attr=sc, detail=f"{wname} through a workspace opened with mode='r' was accepted (the process also holds the file for writing)")
                rec.see("calls-judged")
            e = None
            ro.close()
            rec.check("C10.close", bool(writer._geoh5), op="close-reader", cls=label, attr=sc, detail="closing the reader closed the writer's handle")  # noqa: SLF001
        finally:
            writer.close()
        with Workspace(path, mode="r") as chk:
            rec.check("C10.bytes", chk.get_entity(obj_uid)[0] is not None and chk.get_entity(obj_uid)[0].name != "x" and chk.ga_version != "9.9" and not chk.get_entity("new")[0], op="write-through-reader", cls=label, attr=sc + ":content", detail="something written through the read-only workspace reached the file")
    elif sc == "read_session_of_writable_workspace":
        # a workspace object constructed writable, then closed and opened again for reading only: that session is read-only,
        # whatever the object was constructed with and whatever flags the session left behind
        rw = Workspace(path)
        rw.close()
        watch = FileWatch(path)
        rw.open(mode="r")
        rec.check("C10.mode", rw.geoh5.mode == "r", op="open(mode='r')", cls=label, attr=sc, detail=f"open(mode='r') gave mode {rw.geoh5.mode!r}")
        e = rw.get_entity(obj_uid)[0]
        exc = None
        try:
            e.name = "renamed in a read session"
        except Exception as e2:  # noqa: BLE001
            if not exc_origin(e2)[0]:
                raise
            exc = e2
        rec.check("C10.must-raise", exc is not None, op="write-in-read-session", cls=label, attr=sc, detail="a write in a session opened with mode='r' was accepted")
        for hole in [x for x in rw.objects if type(x).__name__ == "ConcatenatedDrillhole"][:1]:
            try:
                hole.name = "refused"
                rec.fail("C10.must-raise", op="write-in-read-session:concatenated", cls=label, attr=sc, detail="renaming a concatenated hole in a read session was accepted")
            except Exception as e2:  # noqa: BLE001
                if not exc_origin(e2)[0]:
                    raise
                rec.see("refused-write-on-concatenated")
        if case["i"] % 2:
            rw.repack = True  # the flag a removal sets: nothing was removed, and the session is read-only anyway
        if (case["i"] // 12) % 2 == 0:
            # a save under a name that is taken fails: whatever state the workspace is left in, it is not a writable one
            try:
                rw.save_as(path)
                rec.fail("C10.must-raise", op="save_as-onto-existing", cls=label, attr=sc, detail="save_as onto an existing file returned")
            except Exception as e2:  # noqa: BLE001
                if not exc_origin(e2)[0] and not isinstance(e2, FileExistsError):
                    raise
                rec.see("failed-save_as-in-read-session")
            exc = None
            try:
                e = rw.get_entity(obj_uid)[0]
                if e is not None:
                    e.name = "renamed after a failed save_as"
            except Exception as e2:  # noqa: BLE001
                if not exc_origin(e2)[0]:
                    raise
                exc = e2
            rec.check("C10.must-raise", exc is not None or e is None, op="write-after-failed-save_as", cls=label, attr=sc, detail="after a failed save_as in a read session a rename was accepted")
        watch.judge(rec, rw, "write-in-read-session", label, sc)
        e = None
        rw.close()
        judge_close(rec, watch, label, "open(mode='r')")
    elif sc == "helper_requests_read":
        # a closed workspace that was constructed writable is handed to helpers that ask for (or imply) read access
        rw = Workspace(path)
        rw.close()
        watch = FileWatch(path)  # the r+ open / close above may have touched the file: baseline after it
        with fetch_active_workspace(rw, mode="r") as w:
            mode = w.geoh5.mode
            rec.check("C10.mode", mode == "r", op="fetch_active_workspace(mode='r')", cls=label, attr=sc, detail=f"asked for mode 'r' on a closed workspace constructed 'r+': got a handle in mode {mode!r}")
            e = w.get_entity(obj_uid)[0]
            exc = None
            try:
                e.name = "renamed through a read request"
            except Exception as e2:  # noqa: BLE001
                if not exc_origin(e2)[0]:
                    raise
                exc = e2
            rec.check("C10.must-raise", exc is not None, op="write-in-read-block", cls=label, attr=sc, detail="a write inside fetch_active_workspace(ws, mode='r') was accepted")
            watch.judge(rec, w, "write-in-read-block", label, sc)
        judge_close(rec, watch, label, "fetch_active_workspace(mode='r')")
        rw2 = Workspace(path)
        ent = rw2.get_entity(obj_uid)[0]
        rw2.close()
        watch = FileWatch(path)
        out = os.path.join(d, "monitored")
        os.makedirs(out, exist_ok=True)
        try:
            monitored_directory_copy(out, ent)
        except Exception as exc2:  # noqa: BLE001
            if not exc_origin(exc2)[0]:
                raise
            rec.see("raised:" + type(exc2).__name__)
        rec.check("C10.bytes", watch.sha() == watch.h0, op="monitored_directory_copy:closed-source", cls=label, attr=sc, detail="exporting an entity of a closed workspace changed the source file")
        rec.see("calls-judged")
        judge_close(rec, watch, label, "monitored_directory_copy")
    elif sc in ("elevate_then_default", "ui_json_then_default"):
        # an explicit, temporary writable session is the user's right; afterwards the workspace constructed read-only must come
        # back read-only from every default re-open, and writes must be refused again
        if sc == "ui_json_then_default":
            ui = {k: (v.copy() if isinstance(v, dict) else v) for k, v in dict(constants.default_ui_json).items()}
            ui["geoh5"] = path
            ui["title"] = "t"
            fname = os.path.join(d, "in.ui.json")
            with open(fname, "w") as f:
                json.dump(ui, f)
            ro = InputFile.read_ui_json(fname).workspace
            ro.close()
        else:
            ro = Workspace(path, mode="r")
        variant = case["i"] // 8 % 5

        class Fault(Exception):
            pass

        if variant == 0:
            with fetch_active_workspace(ro, mode="r+"):
                pass
        elif variant in (3, 4):  # the temporary writable block is left by an exception
            try:
                if variant == 3:
                    with fetch_active_workspace(ro, mode="r+"):
                        raise Fault()
                else:
                    ro.close()
                    with ro.open(mode="r+"):
                        raise Fault()
            except Fault:
                pass
            rec.see("elevations-aborted")
            still = bool(ro._geoh5)  # noqa: SLF001
            mode_now = ro.geoh5.mode if still else "closed"
            rec.check("C10.mode", mode_now in ("closed", "r"), op="after-aborted-elevation", cls=label, attr=sc, detail=f"an exception left the temporary r+ block; the workspace constructed read-only is now in mode {mode_now!r}")
        elif variant == 1:
            ro.close()
            ro.open(mode="r+")
            ro.close()
        else:
            ro.close()
            with ro.open(mode="r+"):
                pass
        rec.see("explicit-elevations")
        watch = FileWatch(path)  # the explicit writable session may have touched the file: new baseline
        for how in ("open()", "with open()", "fetch_active_workspace(default)"):
            if ro._geoh5:  # noqa: SLF001
                ro.close()
            if how == "open()":
                ro.open()
            elif how == "with open()":
                ro.open().__enter__()
            else:
                ctx = fetch_active_workspace(ro)
                ctx.__enter__()
            mode = ro.geoh5.mode
            rec.check("C10.mode", mode == "r", op="default-reopen-after-elevation", cls=label, attr=how, detail=f"workspace constructed with mode='r', explicitly elevated once and closed; {how} came back in mode {mode!r}")
            e = ro.get_entity(obj_uid)[0]
            holder = ro.get_entity(data_holder)[0]
            writes = [("rename", lambda: setattr(e, "name", "x")), ("add_data", lambda: holder.add_data({"zz": {"values": np.zeros(6)}})), ("set-values", lambda: setattr([c for c in holder.children if c.name == "d_float"][0], "values", np.ones(6))),
                      ("create", lambda: gen.build_object(ro, "Points", rng=rng, name="n")), ("remove", lambda: ro.remove_entity([c for c in holder.children if c.name == "pa"][0]))]
            for wname, fn in writes:
                exc = None
                try:
                    fn()
                except Exception as e2:  # noqa: BLE001
                    if not exc_origin(e2)[0]:
                        raise
                    exc = e2
                rec.check("C10.must-raise", exc is not None, op="write-after-elevation:" + wname, cls=label, attr=how, detail=f"{wname} succeeded on a workspace constructed read-only ({how} after a closed explicit r+ session)")
                watch.judge(rec, ro, "write-after-elevation:" + wname, label, sc)
            ro.close()
        judge_close(rec, watch, label)
    rec.nontrivial = True
    rec.shape = ["helper", sc, case["i"] // 8 % 5]
    rec.sample = {"family": "helper", "scenario": sc}
