"""C07 — data stay aligned with the geometry they are attached to.

GeometryModel: every vertex carries a unique tag (its x coordinate) and every datum is a function of
the tag of the vertex / cell it belongs to, so after any removal, padding or masked copy a read
identifies which original element a value came from.  After every operation of a seeded sequence
(add data incl. short / too-long arrays, assign values, remove vertices / cells with repeated,
unsorted, first / last / all-but-one / no-cell-touching / all-cell-touching index sets, masked
copies, re-opens, deliberately invalid calls) the monitors check, live and after re-open: one entry
per vertex / cell, every surviving element keeps its value, cells reference existing vertices and
connect the same coordinates, padding uses the no-data value, and an operation that raised left
geometry and data mutually consistent."""
from __future__ import annotations

import gc
import os
import random
import shutil
import tempfile

import numpy as np

from ..core import exc_origin, short

PROP = "C07"
LEVEL = "exploration"
RULE = (
    "case = one object (Points / Curve / Surface; some vertices used by no cell; unordered cells) with 2-4 data sets "
    "(float / integer / referenced / boolean, vertex or cell) and a seeded sequence of 4-12 operations from the list in the "
    "module docstring. Non-trivial = >= 1 removal or masked copy judged with >= 1 data set; distinct = (class, op kinds "
    "with index-set classes, data kinds)."
)
ASSUMPTIONS = [
    "only failures the code can really raise are provoked (bad indices, too-long values, wrong dtype); no synthetic I/O faults",
    "no-data: NaN for floats, INTEGER_NDV for integer/referenced",
]
INDEX_CLASSES = ["first", "last", "middle", "repeated", "unsorted", "all-but-one", "orphans-only", "touch-all-cells", "pair"]


def floors(tier):
    f = {"ops:remove_vertices": 150, "ops:remove_cells": 150, "ops:masked_copy": 60, "ops:short_values": 60, "failing-calls": 80, "objects-with-orphan-vertices": 60, "C07.length": 2000, "C07.value-moved": 2000, "C07.cell-coords": 600, "reopens": 100}
    for c in INDEX_CLASSES:
        f["index:" + c] = 8
    return f


def gen_cases(tier, seed):
    n = 720 if tier == "quick" else 9000
    emptied = [{"kind": "emptied", "cls": c, "how": h, "kindd": k, "reopen": r} for c in ("Curve", "Surface") for h in ("cells", "vertices") for k in ("float", "integer", "boolean") for r in (False, True)]
    return emptied + [{"kind": "sequence", "cls": ["Points", "Curve", "Surface"][i % 3], "n_ops": 4 + (i // 3) % 5 if tier == "quick" else 6 + (i // 3) % 12, "first_index": INDEX_CLASSES[(i // 3) % len(INDEX_CLASSES)]} for i in range(n)]


# ------------------------------------------------------------------------------------------
class Model:
    def __init__(self, tags, cells):
        self.tags = list(tags)  # vertex tags in order
        self.cells = [tuple(c) for c in cells] if cells is not None else None  # tuples of tags
        self.cell_ids = list(range(len(self.cells))) if cells is not None else None
        self.data = {}  # name -> {"assoc","kind","values": {key: value}}  key = vertex tag or cell id

    def copy(self):
        m = Model(self.tags, self.cells)
        m.cell_ids = None if self.cell_ids is None else list(self.cell_ids)
        m.data = {k: {"assoc": v["assoc"], "kind": v["kind"], "values": dict(v["values"])} for k, v in self.data.items()}
        return m


def fval(kind, key, salt):
    if kind == "float":
        return float(key) * 2.0 + 0.25 + salt
    if kind == "boolean":
        return bool((int(key) + salt) % 2)
    if kind == "text":
        return f"t{int(key)}s{salt}"
    return int(key) * 3 + 7 + salt


def ndv(kind):
    from geoh5py.shared import INTEGER_NDV

    return float("nan") if kind == "float" else (INTEGER_NDV if kind in ("integer", "referenced") else False)


def build(ws, cls, rng, rec):
    from geoh5py.objects import Curve, Points, Surface

    n = rng.randint(4, 9)
    base = rng.randint(1, 5) * 100
    tags = [float(base + i) for i in range(n)]
    verts = np.array([[t, float(rng.randint(-3, 3)), float(rng.randint(0, 2))] for t in tags])
    cells = None
    if cls == "Curve":
        segs = [[i, i + 1] for i in range(n - 1) if rng.random() < 0.7] or [[0, 1]]
        shape = rng.random()
        if shape < 0.2:  # closed ring / descending line: segments that are not the plain index order
            segs = [[i, i + 1] for i in range(n - 1)] + [[n - 1, 0]]
            rec.see("curve-rings")
        elif shape < 0.35:
            segs = [[i + 1, i] for i in reversed(range(n - 1))]
        elif shape < 0.6:
            rng.shuffle(segs)
        cells = segs
    elif cls == "Surface":
        top = n - 1 if rng.random() < 0.6 else n
        cells = [rng.sample(range(top), 3) for _ in range(rng.randint(2, 5))]
    kw = {"vertices": verts, "name": "obj"}
    if cells is not None:
        kw["cells"] = np.array(cells, dtype="uint32")
    obj = {"Points": Points, "Curve": Curve, "Surface": Surface}[cls].create(ws, **kw)
    model = Model(tags, None if cells is None else [tuple(tags[i] for i in c) for c in cells])
    if cells is not None:
        used = {i for c in cells for i in c}
        if len(used) < n:
            rec.see("objects-with-orphan-vertices")
    return obj, model, {t: tuple(v) for t, v in zip(tags, verts.tolist())}


def add_data(obj, model, rng, rec, name, short_by=0, too_long=False):
    assoc = "CELL" if (model.cells and rng.random() < 0.4) else "VERTEX"
    kind = rng.choice(["float", "integer", "referenced", "boolean", "text"] if not short_by else ["float", "integer", "referenced"])
    if too_long and kind == "text":
        kind = "float"
    keys = model.tags if assoc == "VERTEX" else model.cell_ids
    salt = rng.randint(0, 5)
    full = [fval(kind, k, salt) for k in keys]
    n_given = len(full) - short_by if not too_long else len(full) + 2
    given = full[: max(n_given, 0)] if not too_long else full + [full[0], full[0]]
    arr = np.array(given, dtype={"float": float, "integer": "int32", "referenced": "int32", "boolean": bool, "text": "U16"}[kind])
    if too_long and len(full) >= 1 and rng.random() < 0.4:
        # too many entries in another shape: one row per element, but two or three columns
        arr = np.stack([np.array(full, dtype=arr.dtype)] * rng.choice([2, 3]), axis=1)
        given = arr.ravel().tolist()
        rec.see("too-long-as-2d")
    spec = {"values": arr, "association": assoc}
    if kind == "text":
        spec["type"] = "text"
        rec.see("text-channels")
    if kind == "integer":
        spec["type"] = "integer"
    if kind == "referenced":
        spec["type"] = "referenced"
        spec["value_map"] = {i: f"v{i}" for i in sorted(set(int(x) for x in full) | {1})}
    before_children = len(obj.children)
    try:
        obj.add_data({name: spec})
    except Exception as exc:  # noqa: BLE001
        if not exc_origin(exc)[0]:
            raise
        rec.see("failing-calls")
        if not too_long:
            rec.fail("C07.valid-call-raises", op="add_data", cls=type(obj).__name__, attr=f"{kind}:{assoc}:short{short_by}", detail=f"add_data with {len(given)} of {len(full)} values raised {type(exc).__name__}: {exc}")
        else:
            kids = [c for c in obj.children if getattr(c, "name", None) == name]
            rec.check("C07.after-failure", not kids and len(obj.children) == before_children, op="add_data-too-long", cls=type(obj).__name__, attr=kind, detail=f"refused add_data left a child behind: {[c.name for c in obj.children]}")
        return
    if too_long:
        rec.fail("C07.too-long-accepted", op="add_data", cls=type(obj).__name__, attr=f"{kind}:{assoc}", detail=f"{len(given)} values accepted for {len(full)} elements")
        return
    vals = {k: (full[i] if i < n_given else ndv(kind)) for i, k in enumerate(keys)}
    model.data[name] = {"assoc": assoc, "kind": kind, "values": vals}
    if short_by:
        rec.see("ops:short_values")


def index_set(model, rng, cls_name, what):
    """Indices for a removal, by class; returns list of ints (may be unsorted / repeated)."""
    n = len(model.tags) if what == "vertices" else len(model.cell_ids)
    if n == 0:
        return None
    c = cls_name
    if what == "vertices" and model.cells is not None:
        used = {model.tags.index(t) for cell in model.cells for t in cell}
        orphans = [i for i in range(n) if i not in used]
    else:
        used, orphans = set(range(n)), []
    if c == "first":
        return [0]
    if c == "last":
        return [n - 1]
    if c == "middle":
        return [n // 2]
    if c == "repeated":
        i = rng.randrange(n)
        return [i, i, rng.randrange(n)]
    if c == "unsorted":
        k = min(n - 1, 3)
        idx = rng.sample(range(n), max(k, 1))
        idx.sort(reverse=True)
        return idx
    if c == "all-but-one":
        keep = rng.randrange(n)
        return [i for i in range(n) if i != keep]
    if c == "orphans-only":
        return orphans[:2] if orphans else None
    if c == "touch-all-cells":
        if what != "vertices" or not model.cells:
            return None
        # a small vertex set that hits every cell
        idx = sorted({model.tags.index(cell[0]) for cell in model.cells})
        return idx if len(idx) < n else None
    if c == "pair":
        return rng.sample(range(n), min(2, n))
    return [rng.randrange(n)]


def apply_remove_vertices(model, idx):
    gone = {model.tags[i] for i in set(idx)}
    model.tags = [t for t in model.tags if t not in gone]
    if model.cells is not None:
        keep = [k for k, cell in enumerate(model.cells) if not (set(cell) & gone)]
        kept_ids = [model.cell_ids[k] for k in keep]
        model.cells = [model.cells[k] for k in keep]
        model.cell_ids = kept_ids
    for d in model.data.values():
        if d["assoc"] == "VERTEX":
            d["values"] = {k: v for k, v in d["values"].items() if k not in gone}
        else:
            d["values"] = {k: v for k, v in d["values"].items() if k in set(model.cell_ids)}


def apply_remove_cells(model, idx):
    gone = {model.cell_ids[i] for i in set(idx)}
    keep = [k for k, cid in enumerate(model.cell_ids) if cid not in gone]
    model.cells = [model.cells[k] for k in keep]
    model.cell_ids = [model.cell_ids[k] for k in keep]
    for d in model.data.values():
        if d["assoc"] == "CELL":
            d["values"] = {k: v for k, v in d["values"].items() if k not in gone}


def same(a, b):
    return (a == b) or (isinstance(a, float) and isinstance(b, float) and a != a and b != b)


def judge(rec, obj, model, coords, where, cls):
    """All alignment clauses on one object against its model."""
    verts = obj.vertices
    n = 0 if verts is None else len(verts)
    ok = n == len(model.tags) and all(tuple(verts[i].tolist()) == coords[t] for i, t in enumerate(model.tags))
    rec.check("C07.vertices", ok, op=where, cls=cls, attr="", detail=f"vertices x-tags {[] if verts is None else verts[:, 0].tolist()} expected {model.tags}")
    if not ok:
        return False
    good = True
    if model.cells is not None:
        cells = obj.cells
        nc = 0 if cells is None else len(cells)
        inrange = cells is None or nc == 0 or (int(cells.min()) >= 0 and int(cells.max()) < n)
        rec.check("C07.cell-range", inrange, op=where, cls=cls, attr="", detail=f"cells reference vertices outside 0..{n - 1}: {None if cells is None else cells.tolist()}")
        if inrange:
            got = [tuple(float(verts[i][0]) for i in c) for c in (cells.tolist() if cells is not None else [])]
            okc = got == [tuple(c) for c in model.cells]
            rec.check("C07.cell-coords", okc, op=where, cls=cls, attr="", detail=f"cells connect tags {got} expected {model.cells}")
            good = good and okc
        else:
            good = False
    for name, d in model.data.items():
        child = [c for c in obj.children if getattr(c, "name", None) == name and hasattr(c, "values")]
        if len(child) != 1:
            rec.fail("C07.length", op=where, cls=cls, attr="data-missing", detail=f"{len(child)} children named {name}")
            good = False
            continue
        try:
            vals = child[0].values
        except Exception as exc:  # noqa: BLE001
            if not exc_origin(exc)[0]:
                raise
            rec.fail("C07.length", op=where, cls=cls, attr=f"values-raises:{d['assoc']}", detail=f"reading {name} raised {type(exc).__name__}: {exc}")
            good = False
            continue
        keys = model.tags if d["assoc"] == "VERTEX" else model.cell_ids
        cnt = len(keys)
        if isinstance(vals, str):  # a text channel with one entry reads back as a plain string
            vals = np.array([vals])
        glen = 0 if vals is None else len(vals)
        okl = glen == cnt
        rec.check("C07.length", okl, op=where, cls=cls, attr=f"{d['kind']}:{d['assoc']}", detail=f"{name}: {glen} values for {cnt} {'vertices' if d['assoc'] == 'VERTEX' else 'cells'}")
        if not okl:
            good = False
            continue
        exp = [d["values"][k] for k in keys]
        gotv = [] if vals is None else vals.tolist()
        okv = all(same(a, b) for a, b in zip(gotv, exp))
        rec.evals["C07.value-moved"] += max(cnt - 1, 0)
        rec.check("C07.value-moved", okv, op=where, cls=cls, attr=f"{d['kind']}:{d['assoc']}", detail=f"{name}: values {short(gotv, 200)} expected {short(exp, 200)} (by tag)")
        good = good and okv
    return good


def run_emptied(case, rec):
    """The corner where nothing is left to attach to: all cells removed (or the vertices cut down until no cell remains).  The
    count of entries a cell channel must have is then zero - not 'unknown': anything longer is still refused, and what is stored
    has one entry per cell, i.e. none."""
    from geoh5py.objects import Curve, Surface
    from geoh5py.workspace import Workspace

    rng = random.Random(case["seed"])
    d = tempfile.mkdtemp(prefix="gvm_")
    path = os.path.join(d, "e.geoh5")
    cls = case["cls"]
    dt = {"float": float, "integer": "int32", "boolean": bool}[case["kindd"]]
    try:
        ws = Workspace.create(path)
        n = rng.randint(4, 7)
        verts = np.array([[float(i), float(i % 3), 0.0] for i in range(n)])
        if cls == "Curve":
            obj = Curve.create(ws, vertices=verts, name="c")
        else:
            obj = Surface.create(ws, vertices=verts, cells=np.array([[i, i + 1, i + 2] for i in range(n - 2)], dtype="uint32"), name="s")
        nc = obj.n_cells
        spec = {"values": np.arange(nc).astype(dt) if case["kindd"] != "boolean" else (np.arange(nc) % 2 == 0), "association": "CELL"}
        if case["kindd"] == "integer":
            spec["type"] = "integer"
        ch = obj.add_data({"cell_channel": spec})
        if case["reopen"]:
            uid = obj.uid
            ws.close()
            ws = Workspace(path)
            obj = ws.get_entity(uid)[0]
            ch = [c for c in obj.children if c.name == "cell_channel"][0]
        if case["how"] == "cells":
            obj.remove_cells(list(range(nc)))
        else:
            obj.remove_vertices(list(range(1, n)))
        rec.see("geometries-emptied")
        rec.check("C07.count", (obj.n_cells or 0) == 0 and (ch.values is None or len(ch.values) == 0), op="emptied:" + case["how"], cls=cls, attr=case["kindd"], detail=f"after removing every cell: n_cells={obj.n_cells}, channel holds {None if ch.values is None else len(ch.values)} entries")
        long_ = np.arange(3).astype(dt) if case["kindd"] != "boolean" else np.array([True, False, True])
        for how, fn in (("assign", lambda: setattr(ch, "values", long_.copy())), ("add_data", lambda: obj.add_data({"late": dict(spec, values=long_.copy())}))):
            rec.see("failing-calls")
            try:
                fn()
                rec.fail("C07.too-long-accepted", op=how, cls=cls, attr=f"{case['kindd']}:CELL:emptied", detail=f"3 values accepted for an object without cells ({how})")
            except Exception as exc:  # noqa: BLE001
                if not exc_origin(exc)[0]:
                    raise
        uid = obj.uid
        ws.close()
        ws = Workspace(path, mode="r")
        obj = ws.get_entity(uid)[0]
        for c in obj.children:
            v = getattr(c, "values", None)
            if isinstance(v, np.ndarray) and getattr(c.association, "name", "") == "CELL":
                rec.check("C07.count", len(v) == (obj.n_cells or 0), op="emptied:reopen", cls=cls, attr=case["kindd"], detail=f"stored channel {c.name!r} holds {len(v)} entries for {obj.n_cells} cells")
        ws.close()
        rec.nontrivial = True
        rec.shape = ["emptied", cls, case["how"], case["kindd"], case["reopen"]]
        rec.sample = {"kind": "emptied", "cls": cls}
    finally:
        shutil.rmtree(d, ignore_errors=True)
        gc.collect()


def run_case(case, rec):
    from geoh5py.workspace import Workspace

    if case.get("kind") == "emptied":
        return run_emptied(case, rec)
    rng = random.Random(case["seed"])
    cls = case["cls"]
    d = tempfile.mkdtemp(prefix="gvm_")
    path = os.path.join(d, "a.geoh5")
    ops = []
    try:
        ws = Workspace.create(path)
        obj, model, coords = build(ws, cls, rng, rec)
        for k in range(rng.randint(1, 3)):
            add_data(obj, model, rng, rec, f"d{k}", short_by=0)
        judge(rec, obj, model, coords, "after-build", cls)
        fixed = ["remove_vertices"] if case.get("id", 0) % 2 else ["remove_cells", "remove_vertices"]
        plan = fixed + [rng.choice(["remove_vertices", "remove_cells", "add_short", "assign", "assign_short", "assign_long", "masked_copy", "reopen", "bad_index", "add_long", "wrong_dtype"]) for _ in range(case["n_ops"] - 1)]
        plan = plan[: max(case["n_ops"], 2)]
        first = True
        for op in plan:
            if op in ("remove_cells",) and not model.cells:
                op = "remove_vertices"
            if len(model.tags) <= 1:
                break
            icls = case["first_index"] if first and op == "remove_vertices" else rng.choice(INDEX_CLASSES)
            if op == "remove_vertices":
                first = False
            if op == "remove_vertices":
                idx = index_set(model, rng, icls, "vertices")
                if idx is None:
                    icls = "pair"
                    idx = index_set(model, rng, icls, "vertices")
                if not idx or len(set(idx)) >= len(model.tags):
                    continue
                ops.append((op, icls))
                rec.see("ops:remove_vertices")
                rec.see("index:" + icls)
                before = model.copy()
                try:
                    obj.remove_vertices(list(idx) if rng.random() < 0.5 else np.array(idx))
                    apply_remove_vertices(model, idx)
                except Exception as exc:  # noqa: BLE001
                    if not exc_origin(exc)[0]:
                        raise
                    rec.fail("C07.valid-call-raises", op="remove_vertices", cls=cls, attr=icls, detail=f"remove_vertices({idx}) raised {type(exc).__name__}: {exc}")
                    # the failed call must leave the object consistent with either the old or the new state
                    ok_old = judge_silent(obj, before, coords)
                    after = before.copy()
                    apply_remove_vertices(after, idx)
                    ok_new = judge_silent(obj, after, coords)
                    rec.check("C07.after-failure", ok_old or ok_new, op="remove_vertices", cls=cls, attr=icls, detail="after the failed removal geometry and data agree with neither the state before nor the state after the call")
                    break
                if not judge(rec, obj, model, coords, f"remove_vertices:{icls}", cls):
                    break
            elif op == "remove_cells":
                idx = index_set(model, rng, icls if icls not in ("orphans-only", "touch-all-cells") else "pair", "cells")
                if not idx or len(set(idx)) >= len(model.cell_ids):
                    continue
                ops.append((op, icls))
                rec.see("ops:remove_cells")
                try:
                    obj.remove_cells(list(idx))
                    apply_remove_cells(model, idx)
                except Exception as exc:  # noqa: BLE001
                    if not exc_origin(exc)[0]:
                        raise
                    rec.fail("C07.valid-call-raises", op="remove_cells", cls=cls, attr=icls, detail=f"remove_cells({idx}) raised {type(exc).__name__}: {exc}")
                    break
                if not judge(rec, obj, model, coords, f"remove_cells:{icls}", cls):
                    break
            elif op == "add_short":
                ops.append((op, ""))
                add_data(obj, model, rng, rec, f"s{len(model.data)}", short_by=rng.randint(1, 2))
                if not judge(rec, obj, model, coords, "add_data-short", cls):
                    break
            elif op == "add_long":
                ops.append((op, ""))
                add_data(obj, model, rng, rec, f"l{len(model.data)}x", too_long=True)
                if not judge(rec, obj, model, coords, "after-refused-add_data", cls):
                    break
            elif op in ("assign", "assign_short", "assign_long") and model.data:
                name = rng.choice(sorted(model.data))
                dd = model.data[name]
                keys = model.tags if dd["assoc"] == "VERTEX" else model.cell_ids
                if not keys or (op == "assign_short" and dd["kind"] == "boolean") or dd["kind"] == "text":
                    continue
                salt = rng.randint(10, 20)
                full = [fval(dd["kind"], k, salt) for k in keys]
                dt = {"float": float, "integer": "int32", "referenced": "int32", "boolean": bool}[dd["kind"]]
                child = [c for c in obj.children if getattr(c, "name", None) == name][0]
                ops.append((op, dd["kind"]))
                if op == "assign":
                    child.values = np.array(full, dtype=dt)
                    dd["values"] = dict(zip(keys, full))
                elif op == "assign_short":
                    m = max(len(full) - 1, 0)
                    child.values = np.array(full[:m], dtype=dt)
                    dd["values"] = {k: (full[i] if i < m else ndv(dd["kind"])) for i, k in enumerate(keys)}
                    rec.see("ops:short_values")
                else:
                    rec.see("failing-calls")
                    too = np.array(full + full[:1], dtype=dt)
                    if rng.random() < 0.4:
                        too = np.stack([np.array(full, dtype=dt)] * 2, axis=1)
                        rec.see("too-long-as-2d")
                    try:
                        child.values = too
                        rec.fail("C07.too-long-accepted", op="assign", cls=cls, attr=f"{dd['kind']}:{dd['assoc']}", detail=f"{too.size} values (shape {too.shape}) accepted for {len(full)} elements")
                    except ValueError:
                        pass
                if not judge(rec, obj, model, coords, op, cls):
                    break
            elif op == "masked_copy":
                mask = np.array([rng.random() < 0.6 for _ in model.tags])
                if not mask.any() or mask.all():
                    continue
                ops.append((op, ""))
                rec.see("ops:masked_copy")
                m2 = model.copy()
                apply_remove_vertices(m2, [i for i, keep in enumerate(mask) if not keep])
                clear = rng.random() < 0.4
                if clear:
                    _ = getattr(obj, "parts", None)  # a derived view the user may well have looked at before copying
                    rec.see("masked-copies-with-clear_cache")
                try:
                    new = obj.copy(mask=mask, name="masked", **({"clear_cache": True} if clear else {}))
                except Exception as exc:  # noqa: BLE001
                    if not exc_origin(exc)[0]:
                        raise
                    rec.fail("C07.valid-call-raises", op="masked_copy", cls=cls, attr=type(exc).__name__, detail=f"copy(mask={mask.tolist()}) raised {type(exc).__name__}: {exc}")
                    break
                judge(rec, new, m2, coords, "masked_copy", cls)
                if not judge(rec, obj, model, coords, "source-after-masked_copy", cls):
                    break
                if rng.random() < 0.5:
                    obj, model = new, m2  # carry on with the copy
            elif op == "reopen":
                ops.append((op, ""))
                rec.see("reopens")
                uid = obj.uid
                ws.close()
                ws.open()
                obj = ws.get_entity(uid)[0]
                if not judge(rec, obj, model, coords, "reopen", cls):
                    break
            elif op == "bad_index":
                ops.append((op, ""))
                rec.see("failing-calls")
                before = model.copy()
                try:
                    obj.remove_vertices([len(model.tags) + 3])
                    rec.fail("C07.bad-index-accepted", op="remove_vertices", cls=cls, attr="out-of-range", detail="index beyond the last vertex accepted")
                except (ValueError, IndexError):
                    pass
                if not judge(rec, obj, before, coords, "after-refused-removal", cls):
                    break
            elif op == "wrong_dtype" and model.data:
                name = rng.choice(sorted(model.data))
                child = [c for c in obj.children if getattr(c, "name", None) == name][0]
                ops.append((op, ""))
                rec.see("failing-calls")
                try:
                    child.values = ["not", "an", "array"]
                except (TypeError, ValueError):
                    pass
                if not judge(rec, obj, model, coords, "after-refused-values", cls):
                    break
        # final: everything once more from a fresh reader
        uid = obj.uid
        ws.close()
        ws2 = Workspace(path, mode="r")
        o2 = ws2.get_entity(uid)[0]
        rec.see("reopens")
        if o2 is None:
            rec.fail("C07.vertices", op="final-reopen", cls=cls, attr="missing", detail="object missing after close")
        else:
            judge(rec, o2, model, coords, "final-reopen", cls)
        ws2.close()
        rec.nontrivial = bool(model.data) and any(o[0] in ("remove_vertices", "remove_cells", "masked_copy") for o in ops)
        rec.shape = [cls, ops, sorted((v["kind"], v["assoc"]) for v in model.data.values())]
        rec.sample = {"cls": cls, "ops": ops}
    finally:
        shutil.rmtree(d, ignore_errors=True)
        gc.collect()


def judge_silent(obj, model, coords):
    from ..core import Rec

    r = Rec(PROP)
    try:
        return bool(judge(r, obj, model, coords, "probe", type(obj).__name__)) and not r.failures
    except Exception:  # noqa: BLE001
        return False
