"""C05 — deletion removes exactly the entity, its descendants and all references to them.

After every removal in seeded histories (both entry points) the driver drops its references, runs
the collector and reads the listings; then: no flat node, parent link, child list, property group,
listing or look-up by uid/name yields a victim (live, raw file, after re-open), every survivor is
unchanged, and follow-up operations succeed.  A refused removal (allow_delete off) must raise and
change nothing.  A second driver does the same on concatenated drillholes and their data."""
from __future__ import annotations

import gc
import os
import random
import shutil
import tempfile
import uuid

import numpy as np

from .. import hist, snap
from ..core import short

PROP = "C05"
LEVEL = "exploration"
RULE = (
    "case = one seeded history rich in removals (victims: data in 0/1/several property groups, objects with children, "
    "nested groups; entry point workspace or parent) followed by copies/removals on survivors and a re-open, or one "
    "drillhole-group history (remove hole / data / property group through workspace or parent). Non-trivial = >= 1 "
    "removal judged on a tree with >= 3 survivors; distinct = distinct op/class/entry-point sequence."
)
ASSUMPTIONS = [
    "'once the caller has dropped its own references' is realised as: driver clears its handles, gc.collect(), reads the workspace listings",
    "removal of a subtree containing a protected descendant is not generated (outcome not defined by the property)",
]


def floors(tier):
    return {"removals-judged": 150, "C05.file-node": 150, "C05.lookup": 150, "C05.survivor-changed": 150, "victims-in-several-pgs": 5, "refused-removals": 15, "drill-removals": 20, "via:workspace": 50, "via:parent": 50, "mixed-association-groups": 60}


def gen_cases(tier, seed):
    n = 240 if tier == "quick" else 5000
    cases = []
    for i in range(12 if tier == "quick" else 60):
        cases.append({"kind": "history", "profile": "pg", "gc": ["default", "seeded"][i % 2], "refs": ["strong", "refetch", "drop"][i % 3], "n_ops": 8,
                      "script": [["mk_object", None], ["add_data", None], ["add_data", None], ["pg_add", None], ["pg_add_second", None], ["pg_add_second", None], ["remove", ["data"]], ["copy", ["object"]], ["remove", ["data"]], ["reopen", None], ["remove", ["object"]]]})
    k = 0
    for cls in ["Curve", "Surface", "Grid2D", "Points", "Octree"]:
        for how in ["create_property_group", "find_or_create", "by-name-then-other-association", "association-kwarg"]:
            for via in ["workspace", "parent"]:
                for last in [False, True]:
                    for stored in [False, True]:
                        cases.append({"kind": "mixed-pg", "cls": cls, "how": how, "via": via, "last": last, "stored": stored})
                        k += 1
    for i in range(n):
        if i % 6 == 5:
            cases.append({"kind": "drill", "n_ops": 8 if tier == "quick" else 16, "version": [2.0, 2.1][(i // 6) % 2]})
        else:
            cases.append({"kind": "history", "profile": ["removal", "pg", "nested", "protect", "removal"][i % 6 % 5], "n_ops": [12, 18, 25][i % 3] if tier == "quick" else [20, 35, 50][i % 3], "gc": ["default", "off", "seeded", "aggressive"][(i // 6) % 4], "refs": ["strong", "refetch", "drop"][(i // 18) % 3]})
    return cases


PROFILES = {
    "removal": {"remove": 5.0, "copy": 2.0, "add_data": 5.0, "mk_object": 3.0, "reopen": 1.0},
    "pg": {"add_data": 7.0, "pg_add": 6.0, "pg_add_second": 5.0, "pg_create_empty": 3.0, "remove": 6.0, "pg_delete": 1.0, "pg_remove_data": 1.0, "copy": 2.0, "mk_object": 2.0, "mk_group": 0.5},
    "nested": {"mk_group": 5.0, "mk_object": 3.0, "add_data": 3.0, "remove": 4.0, "move": 2.0, "copy": 2.0},
    "protect": {"remove_protected": 3.0, "remove": 3.0, "add_data": 4.0, "flag": 1.0},
}


class C05Monitor(hist.Monitor):
    wants_live = True

    def at_close(self, eng, path, live, final):
        from geoh5py.workspace import Workspace

        rec = eng.rec
        fresh = Workspace(path, mode="r")
        try:
            reopened = snap.api_snapshot(fresh)
            for u in sorted(eng.model.removed):
                ent = fresh.get_entity(uuid.UUID(u))[0]
                rec.check("C05.lookup", ent is None, op="reopen", cls=type(ent).__name__ if ent is not None else "", attr="by-uid", detail=f"removed entity {u} is returned by get_entity after re-open")
        finally:
            fresh.close()
        hist.compare_model(rec, PROP, eng.model, reopened, "reopened")
        raw = snap.raw_snapshot(path)
        self.file_clauses(eng, raw, "reopen", eng.model.removed, lazily=eng.parent_removed_unswept(raw) if hasattr(eng, "parent_removed_unswept") else set())

    def file_clauses(self, eng, raw, where, victims, lazily=()):
        rec = eng.rec
        for v in sorted(victims):
            for cont in ("Data", "Groups", "Objects"):
                p = f"{cont}/{{{v}}}"
                present = p in raw["nodes"]
                attr = "removed-through-parent-unswept" if p in lazily else ""
                rec.check("C05.file-node", not present, op=where, cls=cont, attr=attr, detail=f"{p} still in the flat container after its removal")
        names = {"{" + v + "}" for v in victims}
        for path, r in raw["nodes"].items():
            if path.split("/", 1)[1].strip("{}") in victims:
                continue
            for cont, links in (r.get("children") or {}).items():
                hit = names & set(links)
                rec.check("C05.file-link", not hit, op=where, cls=cont, attr="", detail=f"{path} still links removed {sorted(hit)[:3]}")
            for pgname, at in (r.get("pgs") or {}).items():
                props = at.get("Properties")
                plist = props.get("data") if isinstance(props, dict) else ([props] if isinstance(props, str) else [])
                plist = [plist] if isinstance(plist, str) else (plist or [])
                hit = [p for p in plist if isinstance(p, str) and p.replace("b:", "").strip("{}") in victims]
                rec.check("C05.pg-mentions-removed", not hit, op=where, cls="file", attr="", detail=f"{path} property group {pgname} still lists removed {hit[:3]}")


def judge_removal(eng, op, before_snap):
    """Clauses evaluated right after one removal (driver handles dropped, collector run, listings read)."""
    rec, ws = eng.rec, eng.ws
    victims = set(op.get("removed") or [])
    via = op.get("via")
    cls = op.get("cls", "")
    rec.see("removals-judged")
    rec.see("via:" + str(via))
    if op.get("in_pgs", 0) >= 2:
        rec.see("victims-in-several-pgs")
    eng.refs.clear()
    gc.collect()
    listed = {}
    for w in ("objects", "groups", "data"):
        listed[w] = {str(e.uid) for e in getattr(ws, w)}
    gc.collect()
    all_listed = set().union(*listed.values())
    hit = sorted(victims & all_listed)
    rec.check("C05.listing", not hit, op="remove:" + via, cls=cls, attr="", detail=f"removed {hit[:3]} still in workspace listings after references were dropped and gc ran")
    for v in sorted(victims):
        ent = ws.get_entity(uuid.UUID(v))[0]
        rec.check("C05.lookup", ent is None, op="remove:" + via, cls=cls, attr="by-uid", detail=f"get_entity({v}) still returns {type(ent).__name__}")
    for name in {before_snap[v]["attrs"].get("name") for v in victims if v in before_snap}:
        if name is None:
            continue
        got = [e for e in ws.get_entity(name) if e is not None and str(e.uid) in victims]
        rec.check("C05.lookup", not got, op="remove:" + via, cls=cls, attr="by-name", detail=f"get_entity({name!r}) returns removed {[str(e.uid) for e in got][:3]}")
    after = snap.api_snapshot(ws)
    # child lists and property groups of everything still in the tree
    for u, r in after.items():
        kids = set(r.get("children") or [])
        rec.check("C05.child-list", not (kids & victims), op="remove:" + via, cls=r.get("cls", ""), attr="", detail=f"{u} children still contain removed {sorted(kids & victims)[:3]}")
        for pg in r.get("pgs", []):
            bad = set(pg["properties"] or []) & victims
            rec.check("C05.pg-mentions-removed", not bad, op="remove:" + via, cls=r.get("cls", ""), attr="live", detail=f"{u} property group {pg['name']!r} still lists removed {sorted(bad)[:3]}")
    # survivors unchanged (their own record, minus child list / groups of the victim's parent)
    parent = before_snap.get(next(iter(victims), ""), {}).get("parent") if victims else None
    top = op.get("target")
    parent = before_snap.get(top, {}).get("parent")
    for u, r0 in before_snap.items():
        if u in victims:
            continue
        r1 = after.get(u)
        if r1 is None:
            rec.fail("C05.survivor-changed", op="remove:" + via, cls=r0.get("cls", ""), attr="<entity>", detail=f"{r0.get('cls')} {u} disappeared although it is not a descendant of the removed entity")
            continue
        a = {k: v for k, v in r0.items() if not (u == parent and k in ("children", "pgs"))}
        b = {k: v for k, v in r1.items() if not (u == parent and k in ("children", "pgs"))}
        if u != parent and a.get("cls", "").endswith("Data") and isinstance(a.get("type"), dict):
            pass
        rec.evals["C05.survivor-changed"] += 1
        if a != b:
            from ..core import diff_paths

            d = diff_paths(a, b, limit=3)
            fld = d[0][0].strip("/").split("/")[0] if d else ""
            rec.fail("C05.survivor-changed", op="remove:" + via, cls=r0.get("cls", ""), attr=fld, detail=f"{u}: {short(d, 400)}", counted=True)
    # file
    raw = snap.raw_snapshot(ws.geoh5)
    eng._c05.file_clauses(eng, raw, "remove:" + via, victims)
    if len(after) >= 3:
        rec.nontrivial = True


class RemovalJudge(hist.Monitor):
    wants_live = False

    def __init__(self):
        self.snap0 = None
        self.dig0 = None

    def before(self, eng, op):
        if op["op"] in ("remove", "remove_protected", "remove_many"):
            self.snap0 = snap.api_snapshot(eng.ws)
            self.dig0 = snap.node_digests(snap.raw_snapshot(eng.ws.geoh5))

    def after(self, eng, op, ok):
        rec = eng.rec
        if op["op"] == "remove" and op.get("removed"):
            judge_removal(eng, op, self.snap0)
        elif op["op"] == "remove_refused":
            # refused: raised (checked by the engine) and nothing changed, except the flag the driver itself set
            snap1 = snap.api_snapshot(eng.ws)
            dig1 = snap.node_digests(snap.raw_snapshot(eng.ws.geoh5))
            a, b = dict(self.snap0 or {}), dict(snap1)
            t = op.get("target")
            for s in (a, b):
                if t in s:
                    s[t] = {k: ({kk: vv for kk, vv in v.items() if kk != "allow_delete"} if k == "attrs" else v) for k, v in s[t].items()}
            rec.check("C05.refused-changed", a == b, op="remove_refused", cls=op.get("cls", ""), attr="api", detail=f"refused removal changed the public view: {short([(x[0]) for x in __import__('gvm.core', fromlist=['diff_paths']).diff_paths(a, b, limit=4)], 300)}")
            changed = sorted(p for p in set(self.dig0) | set(dig1) if self.dig0.get(p) != dig1.get(p))
            tpath = [p for p in changed if t and t in p]
            other = [p for p in changed if p not in tpath]
            rec.check("C05.refused-changed", not other, op="remove_refused", cls=op.get("cls", ""), attr="file", detail=f"refused removal changed file nodes {other[:4]}")


def run_case(case, rec):
    rng = random.Random(case["seed"])
    if case["kind"] == "drill":
        return run_drill(case, rec, rng)
    if case["kind"] == "mixed-pg":
        return run_mixed_pg(case, rec, rng)
    judge = RemovalJudge()
    mon = C05Monitor()
    eng = hist.Engine(rec, rng, PROP, weights=PROFILES[case["profile"]], monitors=[judge, mon], gc_plan=case["gc"], ref_policy=case["refs"], n_ops=case["n_ops"], script=[(k, tuple(f) if f else None) for k, f in case.get("script", [])], classes=["Points", "Curve", "Surface", "Grid2D", "BlockModel"] if case.get("script") else None)
    eng._c05 = mon
    eng.run()
    rec.shape = [case["profile"], [(o["op"], o.get("cls", ""), o.get("via", "")) for o in eng.log]]
    rec.sample = {"profile": case["profile"], "history": [short({k: v for k, v in o.items() if k != "removed"}, 160) for o in eng.log[:10]]}
    gc.collect()


# ------------------------------------------------------------------------------------------
# data removed from property groups whose association differs from the data's own
# ------------------------------------------------------------------------------------------
def run_mixed_pg(case, rec, rng):
    """Deterministic scenes: a group created explicitly (default association) or by name receives data of another association
    (the library accepts any child data into a group); one member is removed through the workspace or the parent."""
    from geoh5py.workspace import Workspace

    from .. import gen

    d = tempfile.mkdtemp(prefix="gvm_")
    path = os.path.join(d, "w.geoh5")
    cls, how, via = case["cls"], case["how"], case["via"]
    where = f"mixed-pg:{via}"
    try:
        ws = Workspace.create(path)
        o = gen.build_object(ws, cls, rng=rng, name="subject", base=3)
        assocs = [a for a in gen.associations_for(o) if a != "OBJECT"]
        made = {}
        for a in assocs:
            spec, _ = gen.data_spec(o, "float", a, rng, tag=4)
            made[a] = [o.add_data({f"{a}_0": spec}), o.add_data({f"{a}_1": dict(spec)})]
        text = o.add_data({"note": {"values": "text", "association": "OBJECT"}})
        other = [a for a in assocs if a != "VERTEX"] or assocs
        victim_assoc = other[0]
        if how == "create_property_group":
            pg = o.create_property_group(name="g")  # default association
            members = [made[victim_assoc][0]] + ([] if case["last"] else [made[assocs[0]][1], text])
            o.add_data_to_group(members, pg)
        elif how == "find_or_create":
            pg = o.find_or_create_property_group(name="g")
            members = [made[victim_assoc][0]] + ([] if case["last"] else [made[victim_assoc][1]])
            pg.add_properties(members)
        elif how == "association-kwarg":
            pg = o.find_or_create_property_group(name="g", association=assocs[0])
            members = [made[victim_assoc][0], text][: 1 if case["last"] else 2]
            o.add_data_to_group(members, pg)
        else:
            first = made[assocs[0]][0]
            o.add_data_to_group([first], "g")
            pg = [p for p in o.property_groups if p.name == "g"][0]
            members = [made[victim_assoc][1], text]
            o.add_data_to_group(members, pg)
            if case["last"]:
                o.remove_data_from_groups([first, text])
                members = [made[victim_assoc][1]]
        victim = members[0]
        vuid = str(victim.uid)
        rec.see("mixed-association-groups" if str(victim.association) != str(pg.association) else "same-association-groups")
        del made, members, text, pg
        if case["stored"]:
            del victim, o
            ws.close()
            ws = Workspace(path, mode="r+")
            o = ws.get_entity("subject")[0]
            victim = ws.get_entity(uuid.UUID(vuid))[0]
        rec.see("removals-judged")
        rec.see("via:" + via)
        survivors = sorted(c.name for c in o.children if hasattr(c, "values") and c is not victim)
        try:
            if via == "workspace":
                ws.remove_entity(victim)
            else:
                o.remove_children([victim])
        except Exception as exc:  # noqa: BLE001
            from ..core import exc_origin

            if not exc_origin(exc)[0]:
                raise
            rec.fail("C05.followup-raises", op=where, cls=cls, attr=type(exc).__name__, detail=f"removing grouped data raised {type(exc).__name__}: {exc}")
            return
        del victim
        gc.collect()
        _ = [e.uid for e in ws.data]  # reading a listing lets the workspace sweep dead referents (parent-route removals are lazy)
        gc.collect()
        left = sorted(c.name for c in o.children if hasattr(c, "values"))
        rec.check("C05.survivor-changed", left == survivors, op=where, cls=cls, attr="siblings", detail=f"data children after the removal {left}, expected exactly the other siblings {survivors}")
        pgs = {p.name: [str(x) for x in (p.properties or [])] for p in (o.property_groups or [])}
        bad = [n for n, m in pgs.items() if vuid in m]
        rec.check("C05.pg-mentions-removed", not bad, op=where, cls=cls, attr="live", detail=f"property group {bad} still lists the removed data ({how}, group association differs from the data's)")
        if case["last"]:
            rec.check("C05.pg-mentions-removed", "g" not in pgs, op=where, cls=cls, attr="emptied-group-kept", detail=f"group 'g' lost its last member but is still on the object: {pgs}")
        rec.check("C05.lookup", ws.get_entity(uuid.UUID(vuid))[0] is None, op=where, cls=cls, attr="by-uid", detail="removed grouped data still returned by get_entity")
        try:
            cp = o.copy(name="copy of subject")
            got = {p.name: len(p.properties or []) for p in (cp.property_groups or [])}
            rec.check("C05.followup-copy", got == {n: len(m) for n, m in pgs.items()}, op=where, cls=cls, attr="", detail=f"copy after the removal has groups {got}, source has {pgs}")
        except Exception as exc:  # noqa: BLE001
            rec.fail("C05.followup-raises", op=where, cls=cls, attr=type(exc).__name__, detail=f"copy of the surviving object raised {type(exc).__name__}: {exc}")
        del o
        ws.close()
        raw = snap.raw_snapshot(path)
        for npath, r in raw["nodes"].items():
            for pgname, at in (r.get("pgs") or {}).items():
                props = at.get("Properties")
                plist = props.get("data") if isinstance(props, dict) else ([props] if isinstance(props, str) else [])
                plist = [plist] if isinstance(plist, str) else (plist or [])
                hit = [x for x in plist if isinstance(x, str) and vuid in x]
                rec.check("C05.pg-mentions-removed", not hit, op=where, cls="file", attr="", detail=f"{npath} property group {pgname} still lists the removed data in the file")
        rec.check("C05.file-node", f"Data/{{{vuid}}}" not in raw["nodes"], op=where, cls="Data", attr="", detail="removed grouped data still in the Data container")
        with Workspace(path, mode="r") as fresh:
            o2 = fresh.get_entity("subject")[0]
            left2 = sorted(c.name for c in o2.children if hasattr(c, "values"))
            rec.check("C05.survivor-changed", left2 == survivors, op=where + ":reopen", cls=cls, attr="siblings", detail=f"data children after re-open {left2}, expected {survivors}")
            for p in o2.property_groups or []:
                try:
                    vals = p.collect_values
                    rec.check("C05.survivor-changed", len(vals) == len(p.properties), op=where, cls=cls, attr="collect_values", detail="group values incomplete after re-open")
                except Exception as exc:  # noqa: BLE001
                    rec.fail("C05.followup-raises", op=where, cls=cls, attr="collect_values:" + type(exc).__name__, detail=f"collect_values of a surviving group raised after re-open: {type(exc).__name__}: {exc}")
        rec.nontrivial = True
        rec.shape = ["mixed-pg", cls, how, via, case["last"], case["stored"]]
        rec.sample = {"kind": "mixed-pg", "cls": cls, "how": how, "via": via}
    finally:
        try:
            ws.close()
        except Exception:  # noqa: BLE001
            pass
        shutil.rmtree(d, ignore_errors=True)
        gc.collect()


# ------------------------------------------------------------------------------------------
# concatenated holes and their data
# ------------------------------------------------------------------------------------------
def run_drill(case, rec, rng):
    from geoh5py.groups import DrillholeGroup
    from geoh5py.objects import Drillhole
    from geoh5py.workspace import Workspace

    d = tempfile.mkdtemp(prefix="gvm_")
    path = os.path.join(d, "dh.geoh5")
    ops = []
    try:
        ws = Workspace.create(path, version=case["version"])
        grp = DrillholeGroup.create(ws, name="DH")
        holes = {}
        for i in range(rng.randint(2, 4)):
            h = Drillhole.create(ws, parent=grp, name=f"h{i}", collar=[float(i), 0.0, 10.0], surveys=np.array([[0.0, 0.0, -90.0], [20.0, 10.0, -80.0]]))
            names = []
            for j in range(rng.randint(1, 3)):
                nm = f"v{j}"
                h.add_data({nm: {"depth": np.arange(4, dtype=float) + 0.5, "values": np.arange(4, dtype=float) + 10 * i + j}}, property_group="dtab")
                names.append(nm)
            if rng.random() < 0.5:
                h.add_data({"iv": {"from-to": np.c_[np.arange(3.0), np.arange(3.0) + 1.0], "values": np.arange(3.0) + 100 * i}}, property_group="itab")
                names.append("iv")
                if rng.random() < 0.6:
                    # the interval log also sits in a second table of the hole (data in several property groups)
                    second = h.find_or_create_property_group(name="second", property_group_type="Interval table")
                    second.add_properties([h.get_data("FROM")[0], h.get_data("TO")[0], h.get_data("iv")[0]])
                    second = None
                    rec.see("hole-data-in-several-groups")
            if rng.random() < 0.6:
                # a value for the whole hole: data in no property group at all
                h.add_data({"note": {"values": np.r_[7.0 + i], "association": "OBJECT"}})
                names.append("note")
                rec.see("hole-data-in-no-group")
            holes[str(h.uid)] = {"name": f"h{i}", "data": names}
        removed_holes, removed_data = set(), []
        all_victims, copied_holes = set(), set()
        grp_uid = grp.uid
        for step in range(case["n_ops"]):
            h = c = new = cands = e = prot = kids = pgs = pg = None  # the driver keeps no handle from one step to the next
            gc.collect()
            live = [u for u in holes if u not in removed_holes]
            k = rng.choice(["rm_data", "rm_hole", "rm_data", "reopen", "copy_hole", "rm_protected", "rm_pg"])
            via = rng.choice(["workspace", "parent"])
            if k == "rm_hole" and (len(live) > 1 or (len(live) == 1 and rng.random() < 0.5)):  # the group's last hole goes too
                u = rng.choice(live)
                h = ws.get_entity(uuid.UUID(u))[0]
                kids = [str(c.uid) for c in h.children if hasattr(c, "values")]
                ops.append(("rm_hole", via))
                rec.see("drill-removals")
                rec.see("via:" + via)
                try:
                    if via == "workspace":
                        ws.remove_entity(h)
                    else:
                        grp.remove_children([h])
                except Exception as exc:  # noqa: BLE001
                    rec.fail("C05.followup-raises", op="remove-hole:" + via, cls="ConcatenatedDrillhole", attr=type(exc).__name__, detail=f"removing hole raised {type(exc).__name__}: {exc}")
                    break
                del h
                removed_holes.add(u)
                gc.collect()
                gc.collect()
                all_victims |= {u} | set(kids)
                judge_concat(rec, ws, grp, {u} | set(kids), "remove-hole:" + via, "ConcatenatedDrillhole", copied=u in copied_holes)
            elif k == "rm_data" and live:
                u = rng.choice(live)
                h = ws.get_entity(uuid.UUID(u))[0]
                cands = [c for c in h.children if hasattr(c, "values") and c.name in holes[u]["data"]]
                if not cands:
                    continue
                c = rng.choice(cands)
                cands = None
                cu, cname = str(c.uid), c.name
                ops.append(("rm_data", via))
                rec.see("drill-removals")
                rec.see("via:" + via)
                try:
                    if via == "workspace":
                        ws.remove_entity(c)
                    else:
                        h.remove_children([c])
                except Exception as exc:  # noqa: BLE001
                    rec.fail("C05.followup-raises", op="remove-data:" + via, cls="ConcatenatedData", attr=type(exc).__name__, detail=f"removing data raised {type(exc).__name__}: {exc}")
                    break
                del c
                holes[u]["data"].remove(cname)
                gc.collect()
                all_victims.add(cu)
                judge_concat(rec, ws, grp, {cu}, "remove-data:" + via, "ConcatenatedData", hole=h, name=cname)
                if cname == "note" and rng.random() < 0.5:
                    # a later operation on the survivor: the freed name is used again
                    try:
                        h.add_data({"note": {"values": np.r_[99.0], "association": "OBJECT"}})
                        holes[u]["data"].append("note")
                        rec.see("name-reused-after-removal")
                    except Exception as exc:  # noqa: BLE001
                        rec.fail("C05.followup-raises", op="re-add-after-removal", cls="ConcatenatedData", attr=type(exc).__name__, detail=f"adding data under the name of removed data raised {type(exc).__name__}: {exc}")
                        break
                del h
            elif k == "rm_pg" and live:
                # a whole table (property group) of a hole: the group, its depth data and every member go
                u = rng.choice(live)
                h = ws.get_entity(uuid.UUID(u))[0]
                pgs = [p for p in (h.property_groups or []) if p.properties]
                if not pgs:
                    continue
                pg = rng.choice(pgs)
                pgs = None
                pg_uid = str(pg.uid)
                members = {str(x) for x in pg.properties}
                ops.append(("rm_pg", via))
                rec.see("drill-removals")
                rec.see("drill-group-removals")
                rec.see("via:" + via)
                try:
                    if via == "workspace":
                        ws.remove_entity(pg)
                    else:
                        h.remove_children([pg])
                except Exception as exc:  # noqa: BLE001
                    rec.fail("C05.followup-raises", op="remove-pg:" + via, cls="ConcatenatedPropertyGroup", attr=type(exc).__name__, detail=f"removing a property group of a hole raised {type(exc).__name__}: {exc}")
                    break
                pg = None
                gc.collect()
                left = set(h.get_data_list())
                holes[u]["data"] = [n for n in holes[u]["data"] if n in left]
                all_victims |= members
                rec.check("C05.pg-mentions-removed", pg_uid not in {str(p.uid) for p in (h.property_groups or [])}, op="remove-pg:" + via, cls="ConcatenatedPropertyGroup", attr="live", detail="the removed property group is still listed on its hole")
                judge_concat(rec, ws, grp, members, "remove-pg:" + via, "ConcatenatedData", copied=u in copied_holes)
                del h
            elif k == "rm_protected" and live:
                u = rng.choice(live)
                h = ws.get_entity(uuid.UUID(u))[0]
                prot = [x for x in h.children if hasattr(x, "values") and not x.allow_delete]
                if rng.random() < 0.3:
                    h.allow_delete = False
                    prot = [h]
                if not prot:
                    continue
                c = rng.choice(prot)
                ops.append(("rm_protected", type(c).__name__))
                before = sorted(h.get_data_list())
                try:
                    ws.remove_entity(c)
                    rec.fail("C05.protected-removal-accepted", op="remove_refused", cls="Concatenated", attr="allow_delete", detail=f"workspace removed protected concatenated {type(c).__name__} {c.name!r}")
                    break
                except UserWarning:
                    rec.see("refused-removals")
                after = sorted(h.get_data_list())
                rec.check("C05.refused-changed", before == after and ws.get_entity(uuid.UUID(u))[0] is not None, op="remove_refused", cls="Concatenated", attr="api", detail=f"refused removal changed the hole: {before} -> {after}")
                if c is h:
                    h.allow_delete = True
            elif k == "copy_hole" and live:
                u = rng.choice(live)
                h = ws.get_entity(uuid.UUID(u))[0]
                ops.append(("copy_hole", ""))
                try:
                    new = h.copy(parent=grp, name=f"copy{step}")
                    got = sorted(c.name for c in new.children if hasattr(c, "values") and c.name in holes[u]["data"])
                    rec.check("C05.followup-copy", got == sorted(holes[u]["data"]), op="copy-after-removal", cls="ConcatenatedDrillhole", attr="", detail=f"copy of hole has data {got}, source should have {sorted(holes[u]['data'])}")
                    holes[str(new.uid)] = {"name": f"copy{step}", "data": list(holes[u]["data"])}
                    copied_holes.add(u)
                except Exception as exc:  # noqa: BLE001
                    rec.fail("C05.followup-raises", op="copy-after-removal", cls="ConcatenatedDrillhole", attr=type(exc).__name__, detail=f"copy of a surviving hole raised {type(exc).__name__}: {exc}")
                    break
            elif k == "reopen":
                ops.append(("reopen", ""))
                ws.close()
                judge_concat_file(rec, path, grp_uid, all_victims, "closed-file")
                ws.open()
                grp = ws.get_entity(grp.uid)[0]
                for u in sorted(removed_holes):
                    e = ws.get_entity(uuid.UUID(u))[0]
                    rec.check("C05.lookup", e is None, op="reopen", cls="ConcatenatedDrillhole", attr="by-uid", detail=f"removed hole {u} is back after re-open")
                for u in [x for x in holes if x not in removed_holes]:
                    h = ws.get_entity(uuid.UUID(u))[0]
                    if h is None:
                        rec.fail("C05.survivor-changed", op="reopen", cls="ConcatenatedDrillhole", attr="<entity>", detail=f"surviving hole {holes[u]['name']} missing after re-open")
                        continue
                    try:
                        got = sorted(nm for nm in h.get_data_list() if not nm.startswith(("DEPTH", "FROM", "TO")))
                    except Exception as exc:  # noqa: BLE001
                        rec.fail("C05.followup-raises", op="reopen", cls="ConcatenatedDrillhole", attr=type(exc).__name__, detail=f"reading children of surviving hole raised {exc}")
                        continue
                    rec.check("C05.survivor-changed", got == sorted(holes[u]["data"]), op="reopen", cls="ConcatenatedDrillhole", attr="data-names", detail=f"hole {holes[u]['name']} has data {got}, expected {sorted(holes[u]['data'])}")
        rec.nontrivial = len(ops) >= 2
        rec.shape = ["drill", case["version"], ops]
        rec.sample = {"kind": "drill", "ops": ops[:10]}
        ws.close()
        judge_concat_file(rec, path, grp_uid, all_victims, "closed-file")
    finally:
        shutil.rmtree(d, ignore_errors=True)


def judge_concat(rec, ws, grp, victims, where, cls, hole=None, name=None, copied=False):
    rec.see("removals-judged")
    for v in sorted(victims):
        e = ws.get_entity(uuid.UUID(v))[0]
        # a copy of a hole keeps the source's DEPTH data (and through it the source hole) alive: separate mechanism
        rec.check("C05.lookup", e is None, op=where, cls=cls, attr="by-uid:copied-before" if copied else "by-uid", detail=f"get_entity({v}) still returns {type(e).__name__} {getattr(e, 'name', None)!r}")
        e = None
    kids = {str(c.uid) for c in grp.children}
    rec.check("C05.child-list", not (kids & victims), op=where, cls="Concatenator", attr="", detail=f"group children still contain removed {sorted(kids & victims)[:2]}")
    if hole is not None:
        hk = {str(c.uid) for c in hole.children}
        rec.check("C05.child-list", not (hk & victims), op=where, cls="ConcatenatedDrillhole", attr="", detail=f"hole children still contain removed data {sorted(hk & victims)[:2]}")
        got = [e for e in hole.get_entity(name) if e is not None]
        rec.check("C05.lookup", not got, op=where, cls=cls, attr="by-name", detail=f"hole.get_entity({name!r}) still yields the removed data")
        listed = hole.get_data_list()
        rec.check("C05.lookup", name not in listed, op=where, cls=cls, attr="by-name:listing", detail=f"hole.get_data_list() still lists the removed {name!r}: {listed}")
        for pg in hole.property_groups or []:
            bad = {str(p) for p in (pg.properties or [])} & victims
            rec.check("C05.pg-mentions-removed", not bad, op=where, cls="ConcatenatedPropertyGroup", attr="live", detail=f"group {pg.name!r} still lists removed data")


def judge_concat_file(rec, path, grp_uid, victims, where, copied=()):
    """File clauses of the concatenated store, evaluated on the closed file (the library writes the
    attribute list at close)."""
    import h5py

    if not victims:
        return
    with h5py.File(path, "r") as h5:
        _judge_concat_file(rec, h5, grp_uid, set(victims), where)


def _judge_concat_file(rec, h5, grp_uid, victims, where):
    cls = "Concatenated"
    base = list(h5)[0]
    node = h5[base]["Groups"]["{" + str(grp_uid) + "}"]
    cat = node["Concatenated Data"]
    ids = [x.decode() if isinstance(x, bytes) else str(x) for x in (node["Concatenated object IDs"][()] if "Concatenated object IDs" in node else [])]
    bad = [v for v in victims if "{" + v + "}" in ids]
    rec.check("C05.file-node", not bad, op=where, cls="Concatenated object IDs", attr="", detail=f"removed hole still listed in Concatenated object IDs: {bad}")
    import json

    recs = []
    if "Attributes Jsons" in cat:
        recs = [json.loads(x.decode() if isinstance(x, bytes) else x) for x in cat["Attributes Jsons"][()]]
    elif "Attributes" in cat:
        raw = cat["Attributes"][()]
        raw = raw[0] if isinstance(raw, np.ndarray) else raw
        recs = json.loads(raw.decode() if isinstance(raw, bytes) else raw)["Attributes"]
    stale = [r.get("ID") for r in recs if str(r.get("ID", "")).strip("{}") in victims]
    rec.check("C05.file-node", not stale, op=where, cls="attribute-record", attr="", detail=f"attribute records of removed entities remain: {stale[:3]}")
    mention = [r.get("ID") for r in recs for k, val in r.items() if k.startswith("Property:") and str(val).strip("{}") in victims]
    rec.check("C05.file-link", not mention, op=where, cls="Property-key", attr="", detail=f"records {mention[:2]} still carry a Property: key to removed data")
    if "Index" in cat:
        for label in cat["Index"]:
            arr = cat["Index"][label][()]
            for row in arr:
                oid = row["Object ID"].decode() if isinstance(row["Object ID"], bytes) else str(row["Object ID"])
                did = row["Data ID"].decode() if isinstance(row["Data ID"], bytes) else str(row["Data ID"])
                hitrow = oid.strip("{}") in victims or did.strip("{}") in victims
                rec.check("C05.file-node", not hitrow, op=where, cls="index-row", attr=label if label in ("Surveys", "Trace", "Property Group IDs", "TraceDepth") else "data", detail=f"Index/{label} keeps a row of a removed entity")
