"""C17 — derived geometry follows the format's indexing conventions.

Oracle: formulas written from docs/content/geoh5_format/analyst/objects.rst with plain Python
loops (no meshgrid, no matrix helpers of the library):
  block model   cell (i,j,k) at index k + i*nZ + j*nU*nZ, centre = mid-points of delimiters,
  2-D grid      cell (i,j) at index i + j*nU, dip about the u axis (V lifts up; Vertical == dip 90),
  both rotated counter-clockwise about the vertical axis at the origin,
  octree        centre = (I,J,K + size/2) * base cell size; default octree tiles the base grid once.
Differential clause for caches: after any sequence of geometry setters the centroids equal those
of a fresh object built with the final parameters.
"""
from __future__ import annotations

import itertools
import math
import random

import numpy as np

PROP = "C17"
LEVEL = "exploration"
RULE = (
    "cases are batches of grid/curve configurations: shapes enumerated exhaustively up to the tier bound "
    "(block <= n^3, grid <= n^2, all power-of-two octree triples <= 16) crossed with seeded cell sizes, origins "
    "(explicit or default), rotations and dips; setter histories and part labelings are seeded. A case is "
    "non-trivial when it evaluated >= 1 centroid clause on >= 2 cells; distinct = distinct structural shape "
    "(kind, dimensions, flags, setter sequence), values excluded."
)
ASSUMPTIONS = [
    "first cell delimiter is 0 as the format document requires",
    "positive dip lifts the V axis (anchored by the documented Vertical flag == dip 90)",
    "comparison tolerance 1e-9 relative to the coordinate scale",
    "curve part clause applies to vertices that belong to at least one segment and segments listed in path order",
]
TOL = 1e-9
ANGLES = [0.0, 30.0, -30.0, 45.0, 90.0, 123.4, 180.0, 270.0, 360.0, -77.7]
DIPS = [0.0, 30.0, -30.0, 45.0, 60.0, 90.0, 12.5]


def floors(tier):
    return {
        "C17.block": 200,
        "C17.grid2d": 200,
        "C17.octree": 100,
        "C17.count": 100,
        "C17.octree-tiling": 100,
        "C17.stale-cache": 50,
        "C17.parts": 30,
        "C17.cells-from-parts": 30,
        "C17.drape": 20,
        "default-origin-objects": 10,
        "curve-edits-after-cached-parts": 15,
        "readonly-setter-histories": 20,
        "failed-write-throughs": 50,
    }


def EXHAUSTIVE(tier):
    return "all 125 power-of-two octree dimension triples <= 16; all block shapes <= bound^3 and grid shapes <= bound^2"


# ------------------------------------------------------------------------------------------
def gen_cases(tier, seed):
    rng = random.Random(seed * 7919 + 17)
    n = 3 if tier == "quick" else 6
    reps = 1 if tier == "quick" else 6
    cases = []
    # block models: every shape, seeded geometry
    shapes = list(itertools.product(range(1, n + 1), repeat=3))
    rng.shuffle(shapes)
    for rep in range(reps):
        for chunk in range(0, len(shapes), 9):
            cases.append({"kind": "block", "shapes": shapes[chunk : chunk + 9], "rep": rep})
    g = 4 if tier == "quick" else 7
    gshapes = list(itertools.product(range(1, g + 1), repeat=2))
    for rep in range(reps * 2):
        for chunk in range(0, len(gshapes), 8):
            cases.append({"kind": "grid2d", "shapes": gshapes[chunk : chunk + 8], "rep": rep})
    dims = [1, 2, 4, 8, 16]
    triples = list(itertools.product(dims, repeat=3))
    for rep in range(reps):
        for chunk in range(0, len(triples), 5):
            cases.append({"kind": "octree", "dims": triples[chunk : chunk + 5], "rep": rep})
    ncache = 144 if tier == "quick" else 1800
    for i in range(ncache):
        cases.append({"kind": "cache", "cls": ["BlockModel", "Grid2D", "Octree", "DrapeModel"][i % 4], "steps": 4 + (i % 5) if tier == "quick" else 4 + (i % 17), "readonly": (i // 4) % 3 == 1})
    ncurve = 160 if tier == "quick" else 2400
    for i in range(ncurve):
        cases.append({"kind": "curve", "n": 2 + (i % 9) if i % 4 != 3 else 5 + (i % 6), "mode": ["blocks", "interleaved", "random", "cells"][i % 4]})
    ndrape = 20 if tier == "quick" else 200
    for i in range(ndrape):
        cases.append({"kind": "drape", "nprisms": 1 + i % 5})
    return cases


# ------------------------------------------------------------------------------------------
def rot_z(p, deg):
    a = math.radians(deg)
    c, s = math.cos(a), math.sin(a)
    return (c * p[0] - s * p[1], s * p[0] + c * p[1], p[2])


def close(a, b, scale):
    return all(abs(x - y) <= TOL * max(1.0, scale) for x, y in zip(a, b)) and all(math.isfinite(float(x)) for x in a)


def rand_delims(rng, n, mode):
    if mode == "uniform":
        d = rng.choice([0.5, 1.0, 2.5, 10.0])
        return [i * d for i in range(n + 1)]
    if mode == "variable":
        out = [0.0]
        for _ in range(n):
            out.append(out[-1] + rng.choice([0.25, 1.0, 3.0, 7.5]))
        return out
    out = [0.0]
    for _ in range(n):
        out.append(out[-1] - rng.choice([0.5, 1.0, 4.0]))
    return out


def rand_origin(rng):
    return [rng.choice([0.0, 10.0, -250.5, 1e5 + 0.25]), rng.choice([0.0, -3.0, 4242.5]), rng.choice([0.0, 100.0, -12.25])]


def ws_new():
    from geoh5py.workspace import Workspace

    return Workspace()


def run_case(case, rec):
    rng = random.Random(case["seed"])
    kind = case["kind"]
    {"block": do_block, "grid2d": do_grid, "octree": do_octree, "cache": do_cache, "curve": do_curve, "drape": do_drape}[kind](case, rec, rng)


# ------------------------------------------------------------------------------------------
def expected_block(du, dv, dz, origin, rot):
    nu, nv, nz = len(du) - 1, len(dv) - 1, len(dz) - 1
    exp = [None] * (nu * nv * nz)
    for i in range(nu):
        for j in range(nv):
            for k in range(nz):
                local = ((du[i] + du[i + 1]) / 2.0, (dv[j] + dv[j + 1]) / 2.0, (dz[k] + dz[k + 1]) / 2.0)
                p = rot_z(local, rot)
                exp[k + i * nz + j * nu * nz] = (p[0] + origin[0], p[1] + origin[1], p[2] + origin[2])
    return exp


def compare_centroids(rec, clause, got, exp, cls, attr, scale, op="centroids"):
    ok_n = rec.check("C17.count", got is not None and len(got) == len(exp), op=op, cls=cls, attr=attr, detail=f"{None if got is None else len(got)} centroids for {len(exp)} cells")
    if not ok_n:
        return False
    bad = None
    for idx, e in enumerate(exp):
        if not close(tuple(float(x) for x in got[idx]), e, scale):
            bad = (idx, [float(x) for x in got[idx]], e)
            break
    rec.evals[clause] += len(exp) - 1
    return rec.check(clause, bad is None, op=op, cls=cls, attr=attr, detail=f"index,got,expected = {bad}")


def do_block(case, rec, rng):
    from geoh5py.objects import BlockModel

    ws = ws_new()
    shape_desc = []
    for nu, nv, nz in case["shapes"]:
        modes = [rng.choice(["uniform", "variable"]), rng.choice(["uniform", "variable"]), rng.choice(["uniform", "variable", "negative"])]
        du, dv, dz = rand_delims(rng, nu, modes[0]), rand_delims(rng, nv, modes[1]), rand_delims(rng, nz, modes[2])
        rot = rng.choice(ANGLES)
        default_origin = rng.random() < 0.25
        kwargs = dict(u_cell_delimiters=np.array(du), v_cell_delimiters=np.array(dv), z_cell_delimiters=np.array(dz), rotation=rot)
        origin = [0.0, 0.0, 0.0]
        if not default_origin:
            origin = rand_origin(rng)
            kwargs["origin"] = origin
        else:
            rec.see("default-origin-objects")
        shape_desc.append(["block", nu, nv, nz, modes, default_origin, rot])
        obj = BlockModel.create(ws, **kwargs)
        attr = "default-origin" if default_origin else "origin"
        try:
            got = obj.centroids
        except Exception as exc:  # noqa: BLE001
            rec.fail("C17.count", op="centroids", cls="BlockModel", attr=attr, detail=f"centroids raised {type(exc).__name__}: {exc}")
            continue
        rec.check("C17.count", obj.n_cells == nu * nv * nz, op="n_cells", cls="BlockModel", attr=attr, detail=f"n_cells={obj.n_cells}")
        exp = expected_block(du, dv, dz, origin, rot)
        scale = max(abs(x) for x in origin + du + dv + dz)
        compare_centroids(rec, "C17.block", got, exp, "BlockModel", attr, scale)
        if nu * nv * nz >= 2:
            rec.nontrivial = True
    rec.shape = shape_desc
    rec.sample = {"kind": "block", "first": shape_desc[0] if shape_desc else None}
    ws.close()


def expected_grid(nu, nv, su, sv, origin, rot, dip):
    exp = [None] * (nu * nv)
    d = math.radians(dip)
    for i in range(nu):
        for j in range(nv):
            u, v = (i + 0.5) * su, (j + 0.5) * sv
            local = (u, v * math.cos(d), v * math.sin(d))
            p = rot_z(local, rot)
            exp[i + j * nu] = (p[0] + origin[0], p[1] + origin[1], p[2] + origin[2])
    return exp


def do_grid(case, rec, rng):
    from geoh5py.objects import Grid2D

    ws = ws_new()
    shape_desc = []
    for nu, nv in case["shapes"]:
        su, sv = rng.choice([0.5, 1.0, 12.5]), rng.choice([0.25, 1.0, 40.0])
        rot, dip = rng.choice(ANGLES), rng.choice(DIPS)
        vertical = rng.random() < 0.25
        default_origin = rng.random() < 0.25
        kwargs = dict(u_count=nu, v_count=nv, u_cell_size=su, v_cell_size=sv, rotation=rot)
        if vertical:
            kwargs["vertical"] = rng.choice([True, True, 1])  # the flag is accepted as a bool or as 0 / 1
            rec.see("vertical-flag:" + type(kwargs["vertical"]).__name__)
            dip = 90.0
        else:
            kwargs["dip"] = dip
        origin = [0.0, 0.0, 0.0]
        if not default_origin:
            origin = rand_origin(rng)
            kwargs["origin"] = origin
        else:
            rec.see("default-origin-objects")
        attr = "default-origin" if default_origin else "origin"
        shape_desc.append(["grid2d", nu, nv, rot, dip, vertical, default_origin])
        obj = Grid2D.create(ws, **kwargs)
        try:
            got = obj.centroids
        except Exception as exc:  # noqa: BLE001
            rec.fail("C17.count", op="centroids", cls="Grid2D", attr=attr, detail=f"centroids raised {type(exc).__name__}: {exc}")
            continue
        rec.check("C17.count", int(obj.n_cells) == nu * nv, op="n_cells", cls="Grid2D", attr=attr, detail=f"n_cells={obj.n_cells}")
        exp = expected_grid(nu, nv, su, sv, origin, rot, dip)
        scale = max([abs(x) for x in origin] + [nu * su, nv * sv])
        compare_centroids(rec, "C17.grid2d", got, exp, "Grid2D", attr, scale)
        if nu * nv >= 2:
            rec.nontrivial = True
    rec.shape = shape_desc
    rec.sample = {"kind": "grid2d", "first": shape_desc[0] if shape_desc else None}
    ws.close()


def refine(cells, rng, steps):
    """Split random cells of size > 1 into 8 octants (still a valid tiling)."""
    cells = list(cells)
    for _ in range(steps):
        cand = [c for c in cells if c[3] > 1]
        if not cand:
            break
        c = rng.choice(cand)
        cells.remove(c)
        h = c[3] // 2
        for di, dj, dk in itertools.product((0, h), repeat=3):
            cells.append((c[0] + di, c[1] + dj, c[2] + dk, h))
    return cells


def tiling_ok(cells, nu, nv, nw):
    cover = {}
    for i0, j0, k0, n in cells:
        if n < 1:
            return False, f"cell size {n}"
        for i in range(i0, i0 + n):
            for j in range(j0, j0 + n):
                for k in range(k0, k0 + n):
                    cover[(i, j, k)] = cover.get((i, j, k), 0) + 1
    for i in range(nu):
        for j in range(nv):
            for k in range(nw):
                if cover.get((i, j, k), 0) != 1:
                    return False, f"base cell {(i, j, k)} covered {cover.get((i, j, k), 0)} times"
    if len(cover) != nu * nv * nw:
        return False, f"{len(cover) - nu * nv * nw} covered cells outside the base grid"
    return True, ""


def do_octree(case, rec, rng):
    from geoh5py.objects import Octree

    ws = ws_new()
    shape_desc = []
    for nu, nv, nw in case["dims"]:
        su, sv, sw = rng.choice([1.0, 2.5]), rng.choice([1.0, 0.5]), rng.choice([1.0, 10.0])
        rot = rng.choice(ANGLES)
        default_origin = rng.random() < 0.25
        explicit = rng.random() < 0.5
        kwargs = dict(u_count=nu, v_count=nv, w_count=nw, u_cell_size=su, v_cell_size=sv, w_cell_size=sw, rotation=rot)
        origin = [0.0, 0.0, 0.0]
        if not default_origin:
            origin = rand_origin(rng)
            kwargs["origin"] = origin
        else:
            rec.see("default-origin-objects")
        attr = "default-origin" if default_origin else "origin"
        shape_desc.append(["octree", nu, nv, nw, rot, default_origin, explicit])
        obj = Octree.create(ws, **kwargs)
        try:
            cells = [tuple(int(x) for x in c) for c in obj.octree_cells.tolist()]
        except Exception as exc:  # noqa: BLE001
            rec.fail("C17.octree-tiling", op="octree_cells", cls="Octree", attr=attr, detail=f"default octree_cells raised {type(exc).__name__}: {exc}")
            continue
        ok, why = tiling_ok(cells, nu, nv, nw)
        rec.check("C17.octree-tiling", ok, op="base_refine", cls="Octree", attr=f"{'cube' if nu == nv == nw else 'non-cube'}", detail=f"dims={(nu, nv, nw)} {why} cells={cells[:8]}")
        if explicit and ok:
            cells = refine(cells, rng, rng.randint(1, 4))
            obj2 = Octree.create(ws, octree_cells=np.array(cells, dtype="int32"), **kwargs)
            obj = obj2
        try:
            got = obj.centroids
        except Exception as exc:  # noqa: BLE001
            rec.fail("C17.count", op="centroids", cls="Octree", attr=attr, detail=f"centroids raised {type(exc).__name__}: {exc}")
            continue
        rec.check("C17.count", obj.n_cells == len(cells), op="n_cells", cls="Octree", attr=attr, detail=f"n_cells={obj.n_cells} vs {len(cells)}")
        exp = []
        for i0, j0, k0, n in cells:
            local = ((i0 + n / 2.0) * su, (j0 + n / 2.0) * sv, (k0 + n / 2.0) * sw)
            p = rot_z(local, rot)
            exp.append((p[0] + origin[0], p[1] + origin[1], p[2] + origin[2]))
        scale = max([abs(x) for x in origin] + [nu * su, nv * sv, nw * sw])
        compare_centroids(rec, "C17.octree", got, exp, "Octree", attr, scale)
        rec.nontrivial = True
    rec.shape = shape_desc
    rec.sample = {"kind": "octree", "first": shape_desc[0] if shape_desc else None}
    ws.close()


# ------------------------------------------------------------------------------------------
def drape_arrays(rng, nprisms):
    layers, prisms = [], []
    first = 0
    for p in range(nprisms):
        nl = rng.randint(1, 4)
        top = rng.choice([0.0, 100.0, -20.5])
        prisms.append([10.0 * p + rng.random(), 5.0 * p, top, first, nl])
        z = top
        for k in range(nl):
            z -= rng.choice([1.0, 2.5, 10.0])
            layers.append([p, k, z])
        first += nl
    return np.array(layers, dtype=float), np.array(prisms, dtype=float)


def expected_drape(layers, prisms):
    exp = []
    for p in prisms.tolist():
        x, y, top, first, count = p
        prev = top
        for r in range(int(first), int(first) + int(count)):
            bottom = layers[r][2]
            exp.append((x, y, (prev + bottom) / 2.0))
            prev = bottom
    return exp


def do_drape(case, rec, rng):
    from geoh5py.objects import DrapeModel

    ws = ws_new()
    layers, prisms = drape_arrays(rng, case["nprisms"])
    obj = DrapeModel.create(ws, layers=layers, prisms=prisms)
    exp = expected_drape(layers.tolist(), prisms)
    got = obj.centroids
    compare_centroids(rec, "C17.drape", got, exp, "DrapeModel", "", 200.0)
    rec.check("C17.count", obj.n_cells == len(exp), op="n_cells", cls="DrapeModel", detail=f"{obj.n_cells}")
    rec.nontrivial = len(exp) >= 2
    rec.shape = ["drape", case["nprisms"], [int(p[4]) for p in prisms]]
    rec.sample = {"kind": "drape", "prisms": prisms.tolist()[:2]}
    ws.close()


# ------------------------------------------------------------------------------------------
def do_cache(case, rec, rng):
    """Random geometry-setter history; centroids must equal those of a fresh object."""
    from geoh5py.objects import BlockModel, DrapeModel, Grid2D, Octree

    ws = ws_new()
    cls = case["cls"]
    seq = []
    if cls == "BlockModel":
        params = dict(u_cell_delimiters=np.array(rand_delims(rng, 2, "uniform")), v_cell_delimiters=np.array(rand_delims(rng, 3, "variable")), z_cell_delimiters=np.array(rand_delims(rng, 2, "negative")), origin=rand_origin(rng), rotation=rng.choice(ANGLES))
        obj = BlockModel.create(ws, **params)

        def gen():
            a = rng.choice(["origin", "rotation", "u_cell_delimiters", "v_cell_delimiters", "z_cell_delimiters"])
            if a == "origin":
                return a, rand_origin(rng)
            if a == "rotation":
                return a, rng.choice(ANGLES)
            return a, np.array(rand_delims(rng, rng.randint(1, 4), rng.choice(["uniform", "variable", "negative"])))

        make = BlockModel
    elif cls == "Grid2D":
        params = dict(u_count=3, v_count=2, u_cell_size=1.0, v_cell_size=2.0, origin=rand_origin(rng), rotation=rng.choice(ANGLES), dip=rng.choice(DIPS[:-2]))
        obj = Grid2D.create(ws, **params)

        def gen():
            a = rng.choice(["origin", "rotation", "dip", "u_count", "v_count", "u_cell_size", "v_cell_size"])
            if a == "origin":
                return a, rand_origin(rng)
            if a == "rotation":
                return a, rng.choice(ANGLES)
            if a == "dip":
                return a, rng.choice([0.0, 30.0, -30.0, 45.0, 60.0, 12.5])
            if a.endswith("count"):
                return a, rng.randint(1, 5)
            return a, rng.choice([0.5, 1.0, 7.25])

        make = Grid2D
    elif cls == "Octree":
        params = dict(u_count=4, v_count=2, w_count=2, u_cell_size=1.0, v_cell_size=1.0, w_cell_size=2.0, origin=rand_origin(rng), rotation=rng.choice(ANGLES))
        obj = Octree.create(ws, **params)
        cells0 = np.array([tuple(c) for c in obj.octree_cells.tolist()], dtype="int32")
        params["octree_cells"] = cells0

        def gen():
            a = rng.choice(["origin", "rotation", "u_cell_size", "v_cell_size", "w_cell_size", "octree_cells"])
            if a == "origin":
                return a, rand_origin(rng)
            if a == "rotation":
                return a, rng.choice(ANGLES)
            if a == "octree_cells":
                base = [tuple(int(x) for x in c) for c in cells0.tolist()]
                return a, np.array(refine(base, rng, rng.randint(0, 3)), dtype="int32")
            return a, rng.choice([0.5, 1.0, 7.25])

        make = Octree
    else:
        layers, prisms = drape_arrays(rng, 2)
        params = dict(layers=layers, prisms=prisms)
        obj = DrapeModel.create(ws, **params)

        def gen():
            layers, prisms = drape_arrays(rng, rng.randint(1, 4))
            return "geometry", (layers, prisms)

        make = DrapeModel

    readonly = case.get("readonly") and cls != "DrapeModel"
    tmpdir = None
    if readonly:
        # the same object stored on disk and re-opened read-only: every setter's write-through raises, the
        # caller catches and carries on -- geometry and centroids must still agree with each other
        import tempfile

        from geoh5py.workspace import Workspace

        tmpdir = tempfile.mkdtemp(prefix="gvm_")
        path = tmpdir + "/ro.geoh5"
        uid = obj.uid
        ws.save_as(path)
        ws.close()
        ws = Workspace(path, mode="r")
        obj = ws.get_entity(uid)[0]
        rec.see("readonly-setter-histories")
    _ = obj.centroids  # fill the cache
    for _step in range(case["steps"]):
        a, v = gen()
        if a == "geometry":
            # a drape model's two arrays describe one geometry: assign both, then look
            obj.layers = v[0]
            obj.prisms = v[1]
            params["layers"], params["prisms"] = v
            seq.append("layers+prisms")
        else:
            try:
                setattr(obj, a, v)
            except UserWarning:
                if not readonly:
                    raise
                rec.see("failed-write-throughs")
            params[a] = v
            seq.append(a)
        if rng.random() < 0.6:
            _ = obj.centroids
    if readonly:
        # expected geometry = what the object's own getters now say
        from geoh5py.workspace import Workspace as _W

        for key in list(params):
            cur = getattr(obj, key)
            if key == "origin":
                cur = [float(cur["x"]), float(cur["y"]), float(cur["z"])]
            elif key == "octree_cells":
                cur = np.array([tuple(c) for c in cur.tolist()], dtype="int32")
            params[key] = cur
        fresh = make.create(_W(), **params)
    else:
        fresh = make.create(ws, **params)
    got, exp = obj.centroids, fresh.centroids
    same = got is not None and exp is not None and got.shape == exp.shape and np.allclose(got, exp, rtol=0, atol=1e-9 * 1e5)
    last = seq[-1] if seq else ""
    bad_attr = last
    if not same:
        # localise: which single setter leaves the cache stale?
        bad_attr = ",".join(sorted(set(seq)))
    rec.check("C17.stale-cache", same, op="setter-history:failing-writes" if readonly else "setter-history", cls=cls, attr=bad_attr if cls != "DrapeModel" else "layers+prisms", detail=f"setters={seq} got_shape={None if got is None else got.shape} fresh_shape={None if exp is None else exp.shape}")
    n = obj.n_cells
    rec.check("C17.count", got is not None and n is not None and len(got) == int(n), op="after-setters", cls=cls, attr="", detail=f"{None if got is None else len(got)} centroids, n_cells={n}, setters={seq}")
    rec.nontrivial = True
    rec.shape = ["cache", cls, seq, bool(readonly)]
    rec.sample = {"kind": "cache", "cls": cls, "setters": seq, "readonly": bool(readonly)}
    ws.close()
    if tmpdir:
        import shutil

        shutil.rmtree(tmpdir, ignore_errors=True)


# ------------------------------------------------------------------------------------------
def components(n, cells):
    parent = list(range(n))

    def find(x):
        while parent[x] != x:
            parent[x] = parent[parent[x]]
            x = parent[x]
        return x

    for a, b in cells:
        parent[find(a)] = find(b)
    return [find(i) for i in range(n)]


def do_curve(case, rec, rng):
    from geoh5py.objects import Curve

    ws = ws_new()
    n = case["n"]
    verts = np.array([[float(i), float(i % 3), 0.0] for i in range(n)])
    mode = case["mode"]
    if mode == "cells":
        # explicit polylines listed in path order; derive parts and compare with connectivity
        cuts = sorted(rng.sample(range(1, n), min(n - 1, rng.randint(0, 2)))) if n > 2 else []
        segs, start = [], 0
        for c in cuts + [n]:
            idx = list(range(start, c))
            segs += [[a, b] for a, b in zip(idx[:-1], idx[1:])]
            start = c
        if not segs:
            segs = [[0, 1]]
        obj = Curve.create(ws, vertices=verts, cells=np.array(segs, dtype="uint32"))
        parts = obj.parts
        comp = components(n, segs)
        used = sorted({v for s in segs for v in s})
        ok = parts is not None and len(parts) == n
        detail = ""
        if ok:
            for a in used:
                for b in used:
                    if (parts[a] == parts[b]) != (comp[a] == comp[b]):
                        ok = False
                        detail = f"vertices {a},{b}: labels {int(parts[a])},{int(parts[b])} but components {comp[a]},{comp[b]}"
                        break
                if not ok:
                    break
        rec.check("C17.parts", ok, op="parts-from-cells", cls="Curve", attr="", detail=f"cells={segs} parts={None if parts is None else parts.tolist()} {detail}")
        # parts are cached now: change the connectivity through the public API and look again
        if len(segs) >= 3:
            how = rng.choice(["remove_cells", "remove_vertices", "cells-setter"])
            if how == "remove_cells":
                victim = rng.randrange(1, len(segs) - 1)
                obj.remove_cells([victim])
                segs2 = [sg for i, sg in enumerate(segs) if i != victim]
                n2 = n
            elif how == "remove_vertices":
                v = rng.choice(sorted({x for sg in segs for x in sg}))
                obj.remove_vertices([v])
                remap = {old: new for new, old in enumerate(i for i in range(n) if i != v)}
                segs2 = [[remap[a], remap[b]] for a, b in segs if a != v and b != v]
                n2 = n - 1
            else:
                extra = [[segs[-1][1], 0]] if segs[-1][1] != 0 else [[0, n - 1]]
                segs2 = segs + extra
                obj.cells = np.array(segs2, dtype="uint32")
                n2 = n
            parts2 = obj.parts
            cells2 = obj.cells
            got_cells = sorted(tuple(int(x) for x in c) for c in cells2.tolist()) if cells2 is not None else None
            rec.check("C17.cells-after-edit", got_cells == sorted(tuple(x) for x in segs2), op=how, cls="Curve", attr="", detail=f"after {how}: cells {got_cells} expected {sorted(tuple(x) for x in segs2)}")
            comp2 = components(n2, segs2)
            used2 = sorted({x for sg in segs2 for x in sg})
            ok2 = parts2 is not None and len(parts2) == n2
            det2 = ""
            if ok2 and how != "cells-setter":
                for a in used2:
                    for b in used2:
                        if (parts2[a] == parts2[b]) != (comp2[a] == comp2[b]):
                            ok2, det2 = False, f"vertices {a},{b}: labels {int(parts2[a])},{int(parts2[b])} components {comp2[a]},{comp2[b]}"
                            break
                    if not ok2:
                        break
            rec.check("C17.parts", ok2, op="parts-after-" + how, cls="Curve", attr="", detail=f"cells now {segs2}, parts {None if parts2 is None else parts2.tolist()} {det2}")
            rec.see("curve-edits-after-cached-parts")
        rec.shape = ["curve", "cells", n, len(cuts)]
        rec.sample = {"kind": "curve", "cells": segs}
    else:
        if mode == "blocks":
            k = rng.randint(1, 3)
            labels, lab = [], 0
            while len(labels) < n:
                run = rng.randint(1, max(1, n // k))
                labels += [lab] * run
                lab += 1
            labels = labels[:n]
        elif mode == "interleaved":
            labels = [i % 2 for i in range(n)]
        else:
            labels = [rng.randint(0, 2) for _ in range(n)]
        ids = rng.sample(range(1, 50), 3)
        labels = [ids[x % 3] for x in labels]
        obj = Curve.create(ws, vertices=verts, parts=np.array(labels))
        cells = obj.cells
        exp = set()
        for lab in set(labels):
            idx = [i for i, x in enumerate(labels) if x == lab]
            exp |= {(a, b) for a, b in zip(idx[:-1], idx[1:])}
        got = {tuple(sorted(int(x) for x in c)) for c in cells.tolist()} if cells is not None else None
        rec.check("C17.cells-from-parts", got == exp and (cells is None or len(cells) == len(exp)), op="cells-from-parts", cls="Curve", attr=mode, detail=f"labels={labels} got={None if got is None else sorted(got)} expected={sorted(exp)}")
        # and back: labels derived from those segments agree with connectivity
        parts = obj.parts
        comp = components(n, list(exp))
        used = sorted({v for s in exp for v in s})
        ok = parts is not None and len(parts) == n
        detail = ""
        if ok:
            for a in used:
                for b in used:
                    if (parts[a] == parts[b]) != (comp[a] == comp[b]):
                        ok, detail = False, f"vertices {a},{b}"
                        break
                if not ok:
                    break
        rec.check("C17.parts", ok, op="parts-after-cells-from-parts", cls="Curve", attr=mode, detail=f"labels={labels} parts={None if parts is None else parts.tolist()} {detail}")
        rec.shape = ["curve", mode, n, len(set(labels))]
        rec.sample = {"kind": "curve", "labels": labels}
    rec.nontrivial = n >= 3
    ws.close()
