"""C02 — every file the library writes is a structurally valid geoh5 file.

The independent validator (gvm.snap.validate_raw, plain h5py, written from the format documents)
is run on the closed file at every close of seeded histories that are heavy on cross-workspace
copies, removals, re-parenting, refused operations and drillhole groups."""
from __future__ import annotations

import gc
import os
import shutil
import random

from .. import hist, snap
from ..core import short

PROP = "C02"
LEVEL = "exploration"
RULE = (
    "case = one seeded API history (profiles: mixed, copy-heavy across two workspaces, removal/re-parenting heavy, "
    "refusals, drillhole groups); every close along the way (and of the second workspace) is validated; "
    "non-trivial = >= 1 validated file holding >= 4 entities after >= 1 removal, move or copy; distinct = distinct "
    "(op-kind sequence, classes) shape."
)
ASSUMPTIONS = [
    "validity = the documented layout (geoh5_file_format.textile, hierarchy/*.rst); Geoscience ANALYST itself is not available",
    "h5py object addresses identify HDF5 objects (same address == same object)",
]


def floors(tier):
    return {"files-validated": 150, "files-with-removal": 40, "files-with-move": 40, "files-with-copy": 40, "files-with-concatenator": 10, "second-workspace-files": 10}


def gen_cases(tier, seed):
    n = 600 if tier == "quick" else 6000
    cases = []
    for i in range(n):
        cases.append({"kind": "history", "profile": ["mixed", "copy2", "churn", "refuse", "drill", "clip"][i % 6], "n_ops": [10, 16, 24][i % 3] if tier == "quick" else [15, 30, 50][i % 3], "gc": ["default", "every", "seeded", "aggressive"][(i // 5) % 4], "refs": ["strong", "refetch", "drop"][(i // 15) % 3]})
    # the same short story on every seed: an object with grouped data is copied to the second workspace after one of its grouped
    # children travelled there alone (the copy must renumber that child; neither file may end up naming a data entity of the other)
    for i in range(8 if tier == "quick" else 40):
        cases.append({"kind": "history", "profile": "copy2", "script": [["mk_object", None], ["add_data", None], ["add_data", None], ["add_data", None], ["pg_add", None], ["pg_add", None], ["copy_out", ["object"]], ["reopen", None], ["copy_out", ["object"]]],
                      "n_ops": 9, "gc": ["default", "every", "seeded", "aggressive"][i % 4], "refs": ["strong", "refetch", "drop"][i % 3], "precopy": True})
    if tier == "thorough":  # the repository's own tests as an extra workload: every file they close goes through the validator
        cases.append({"kind": "repo-suite", "profile": "repo-suite"})
    return cases


CASE_TIMEOUT = 900


def run_repo_suite(case, rec):
    import json
    import subprocess
    import sys
    import tempfile

    from ..core import REPO, ROOT

    d = tempfile.mkdtemp(prefix="gvm_suite_")
    out = os.path.join(d, "findings.jsonl")
    env = dict(os.environ, GVM_PLUGIN_OUT=out, PYTHONPATH=os.pathsep.join([REPO, ROOT, os.path.join(ROOT, ".deps")]))
    try:
        p = subprocess.run([sys.executable, "-m", "pytest", "-q", "-p", "no:cacheprovider", "-p", "gvm.pytest_plugin", f"--basetemp={d}/bt", "--timeout=900", "tests"],
                           cwd=REPO, env=env, capture_output=True, text=True, timeout=850)
        rec.see("repo-suite-runs")
        stats = {}
        n = 0
        if os.path.exists(out):
            for ln in open(out):
                f = json.loads(ln)
                if "stats" in f:
                    stats = f["stats"]
                    continue
                n += 1
                test = f["test"].split("::")[0].split("/")[-1]
                if f["rule"].startswith("X."):
                    raise RuntimeError("validator error inside the suite lane: " + f["detail"])
                attr = "removed-through-parent" if f.get("through_parent") else test
                clause = "C02." + f["rule"] if f["rule"].startswith("V") else "C02.suite-" + f["rule"]
                rec.fail(clause, op="repo-suite", cls=f["kind"], attr=attr, detail=f"{f['test']} closed {f['file']}: {f['detail']}")
        for k, v in stats.items():
            rec.obs["suite:" + k] += v
        rec.evals["C02.suite-files"] += stats.get("validated", 0)
        rec.obs["files-validated"] += stats.get("validated", 0)
        if stats.get("validated", 0) < 150:
            raise RuntimeError(f"suite lane validated only {stats.get('validated', 0)} files; pytest said: {p.stdout[-300:]}")
        rec.nontrivial = True
        rec.shape = ["repo-suite"]
        rec.sample = {"profile": "repo-suite", "pytest": p.stdout.strip().splitlines()[-1][:120], "stats": stats}
    finally:
        shutil.rmtree(d, ignore_errors=True)


PROFILES = {
    "mixed": {"mk_deferred": 1.5, "clip": 1.5, "dup_uid": 0.8},
    "copy2": {"copy_out": 4.5, "clip": 2.0, "mk_group": 2.0, "pg_add": 3.5, "copy": 3.0, "mk_object": 3.0, "add_data": 4.0, "pg_add": 2.0, "remove": 1.5},
    "clip": {"mk_group": 6.0, "mk_object": 5.0, "add_data": 2.0, "clip": 7.0, "move": 1.5, "copy": 0.5, "remove": 0.5, "reopen": 0.5},
    "churn": {"remove": 4.0, "move": 4.0, "copy": 2.0, "reopen": 2.0, "mk_group": 3.0, "listing": 1.5, "gc": 1.5},
    "refuse": {"remove_protected": 2.5, "remove_partial": 2.5, "remove": 2.0, "move": 2.0, "add_data_fail": 1.0, "half_write": 2.5, "mk_deferred": 1.5, "dup_uid": 2.5, "move_data": 2.0, "pg_add": 3.0, "add_data": 5.0},
    "drill": {"mk_object": 2.0, "add_data": 3.0, "remove": 2.0, "copy": 1.5},
}


class C02Monitor(hist.Monitor):
    def __init__(self):
        self.kinds = set()

    def after(self, eng, op, ok):
        self.kinds.add(op["op"])

    def validate(self, eng, path, tag):
        rec = eng.rec
        raw = snap.raw_snapshot(path)
        bad = snap.validate_raw(raw)
        rec.see("files-validated")
        rec.evals["C02.layout"] += 1
        n = len(raw["nodes"])
        if any(r.get("concat") is not None for r in raw["nodes"].values()):
            rec.see("files-with-concatenator")
        for k, key in (("remove", "files-with-removal"), ("move", "files-with-move"), ("copy", "files-with-copy")):
            if k in self.kinds:
                rec.see(key)
        if n >= 4 and self.kinds & {"remove", "move", "copy", "copy_out"}:
            rec.nontrivial = True
        lazily = {p for p in eng.parent_removed}
        for rule, kind, detail, subject in bad:
            # nodes removed through their parent are swept lazily (or never) by the library: the orphan and
            # everything hanging off it is one mechanism (see known findings), everything else is judged strictly
            attr = ""
            if subject in lazily or any(p in str(detail) for p in lazily if rule.startswith("V5.unreachable")):
                attr = "removed-through-parent"
            rec.fail("C02." + rule, op=tag, cls=kind, attr=attr, detail=detail, counted=True)

    def at_close(self, eng, path, live, final):
        self.validate(eng, path, "close")
        if final and eng.ws2 is not None:
            eng.ws2.close()
            eng.rec.see("second-workspace-files")
            self.validate2(eng)

    def validate2(self, eng):
        rec = eng.rec
        raw = snap.raw_snapshot(eng.path2)
        rec.see("files-validated")
        rec.evals["C02.layout"] += 1
        for rule, kind, detail, _subject in snap.validate_raw(raw):
            rec.fail("C02." + rule, op="close-target-of-copy", cls=kind, attr="", detail=detail, counted=True)


def run_case(case, rec):
    rng = random.Random(case["seed"])
    classes = None
    if case["profile"] == "drill":
        return run_drill(case, rec, rng)
    if case["profile"] == "repo-suite":
        return run_repo_suite(case, rec)
    eng = hist.Engine(rec, rng, PROP, weights=PROFILES[case["profile"]], monitors=[C02Monitor()], gc_plan=case["gc"], ref_policy=case["refs"], n_ops=case["n_ops"], second_ws=case["profile"] in ("copy2", "clip"), classes=classes, script=[(k, tuple(f) if f else None) for k, f in case.get("script", [])])
    eng.force_precopy = bool(case.get("precopy"))
    eng.run()
    rec.shape = [case["profile"], [(o["op"], o.get("cls", "")) for o in eng.log]]
    rec.sample = {"profile": case["profile"], "history": [short({k: v for k, v in o.items() if k != "removed"}, 160) for o in eng.log[:10]]}
    gc.collect()


def run_drill(case, rec, rng):
    """Drillhole groups (concatenated storage) mixed with ordinary entities, copies and removals."""
    import os
    import shutil
    import tempfile

    import numpy as np
    from geoh5py.groups import ContainerGroup, DrillholeGroup
    from geoh5py.objects import Drillhole, Points
    from geoh5py.workspace import Workspace

    d = tempfile.mkdtemp(prefix="gvm_")
    path, path2 = os.path.join(d, "a.geoh5"), os.path.join(d, "b.geoh5")
    mon = C02Monitor()
    ops = []

    class E:  # minimal engine facade for the monitor
        pass

    eng = E()
    eng.rec, eng.parent_removed, eng.ws2 = rec, set(), None
    try:
        ws = Workspace.create(path, version=rng.choice([2.0, 2.1]))
        dh_group = DrillholeGroup.create(ws, name="DH")
        cont = ContainerGroup.create(ws, name="cont")
        holes = []
        extra_groups = []
        for step in range(case["n_ops"]):
            k = rng.choice(["hole", "data", "points", "remove_hole", "remove_data", "copy_group", "reopen", "interval", "group_note", "second_group", "remove_second_group", "remove_group_note"])
            ops.append(k)
            mon.kinds.add({"remove_hole": "remove", "remove_data": "remove", "copy_group": "copy"}.get(k, k))
            if k == "hole" or not holes:
                h = Drillhole.create(ws, parent=dh_group, name=f"h{step}", collar=[float(step), 0.0, 10.0], surveys=np.array([[0.0, 0.0, -90.0], [20.0, 10.0, -80.0]]))
                holes.append(h.uid)
            elif k == "data":
                h = ws.get_entity(rng.choice(holes))[0]
                n = 4
                h.add_data({f"lab{rng.randint(0, 2)}_{step}": {"depth": np.arange(n, dtype=float) + 0.5, "values": np.arange(n, dtype=float) + step}}, property_group="dtab")
            elif k == "interval":
                h = ws.get_entity(rng.choice(holes))[0]
                n = 3
                ft = np.c_[np.arange(n, dtype=float), np.arange(n, dtype=float) + 1.0]
                h.add_data({f"int{rng.randint(0, 2)}_{step}": {"from-to": ft, "values": np.arange(n, dtype=float) + 10 * step}}, property_group="itab")
            elif k == "points":
                Points.create(ws, parent=cont, name=f"p{step}", vertices=np.zeros((3, 3)))
            elif k == "group_note":  # ordinary (non-concatenated) data owned by a drillhole group
                if rng.random() < 0.5:
                    dh_group.add_comment(f"note {step}", author="me")
                else:
                    dh_group.add_file(b"attachment", name=f"att{step}.bin")
                rec.see("drillhole-group-ordinary-data")
            elif k == "second_group":
                g2 = DrillholeGroup.create(ws, name=f"DH2_{step}", parent=cont if rng.random() < 0.5 else None)
                h2 = Drillhole.create(ws, parent=g2, name=f"g2h{step}", collar=[0.0, float(step), 5.0], surveys=np.array([[0.0, 0.0, -90.0], [20.0, 10.0, -80.0]]))
                h2.add_data({"assay": {"depth": np.arange(3.0) + 0.5, "values": np.arange(3.0)}}, property_group="dtab")
                if rng.random() < 0.7:
                    g2.add_comment("second group note", author="me")
                if rng.random() < 0.5:
                    g2.add_file(b"bytes", name="second.bin")
                extra_groups.append(g2.uid)
                del g2, h2
            elif k == "remove_second_group" and extra_groups:
                u = extra_groups.pop(rng.randrange(len(extra_groups)))
                g2 = ws.get_entity(u)[0]
                ws.remove_entity(g2)
                del g2
                mon.kinds.add("remove")
                rec.see("drillhole-group-removals")
            elif k == "remove_group_note":
                notes = [c for c in dh_group.children if hasattr(c, "values")]
                if notes:
                    ws.remove_entity(rng.choice(notes))
                    notes = None
                    rec.see("drillhole-group-data-removals")
            elif k == "remove_hole" and len(holes) > 1:
                u = holes.pop(rng.randrange(len(holes)))
                ws.remove_entity(ws.get_entity(u)[0])
            elif k == "remove_data":
                h = ws.get_entity(rng.choice(holes))[0]
                kids = [c for c in h.children if hasattr(c, "values") and getattr(c, "allow_delete", False)]
                if kids:
                    h.remove_children([rng.choice(kids)])
            elif k == "copy_group":
                with Workspace.create(path2) if not os.path.exists(path2) else Workspace(path2) as ws2:
                    if ws2.get_entity(dh_group.uid)[0] is None:
                        dh_group.copy(parent=ws2.root)
                mon.validate2_path = path2
                raw = snap.raw_snapshot(path2)
                rec.see("files-validated")
                rec.see("second-workspace-files")
                rec.evals["C02.layout"] += 1
                for rule, kind, detail, _subject in snap.validate_raw(raw):
                    rec.fail("C02." + rule, op="close-copied-drillhole-group", cls=kind, attr="", detail=detail, counted=True)
            elif k == "reopen":
                ws.close()
                mon.validate(eng, path, "close-drill")
                ws.open()
                dh_group = ws.get_entity(dh_group.uid)[0]
                cont = ws.get_entity(cont.uid)[0]
        ws.close()
        mon.validate(eng, path, "close-drill")
        rec.shape = ["drill", ops]
        rec.sample = {"profile": "drill", "ops": ops}
    finally:
        shutil.rmtree(d, ignore_errors=True)
