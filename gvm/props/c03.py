"""C03 — no accepted attribute change is lost (write-through completeness).

Reflective enumeration: for every concrete entity class, data class, type class, property groups,
concatenated holes / data and the workspace header, every assignable attribute named by the
statement (properties with a setter that appear in the class's attribute map, in the array-field
table or in the statement's list) gets valid values from a typed registry.  Per (class, attribute):
create -> close -> re-open (so the entity is genuinely *already stored*) -> assign v1 -> live getter
-> assign v2 -> live getter -> close -> fresh read-only open -> getter == live (differential) and the
raw HDF5 attribute / dataset holds encode(v2); plus ordered pairs of different attributes."""
from __future__ import annotations

import gc
import inspect
import os
import random
import shutil
import tempfile
import uuid
import warnings

import h5py
import numpy as np

from .. import gen
from ..core import canon, exc_origin, short

PROP = "C03"
LEVEL = "exploration"
RULE = (
    "case = one concrete class with all its assignable attributes (discovered reflectively), 2 values per attribute "
    "(10 in the thorough tier) from a typed registry, each assigned to an entity that was stored, closed and re-opened; "
    "plus ordered attribute pairs per class. All (class, attribute) pairs are enumerated; values are seeded. Non-trivial = "
    ">= 2 attributes judged through a close / fresh-open cycle; distinct = (class, attribute list)."
)
ASSUMPTIONS = [
    "'valid value' is defined by the registry; a value the setter rejects is counted as rejected, not as a violation",
    "uid, association, primitive type and property-group members are creation-time only and are not re-assigned",
    "survey link / EM parameters are judged under C20",
]
FLAGS = ["allow_delete", "allow_move", "allow_rename", "public", "visible", "partially_hidden"]
SKIP = {"uid", "on_file", "parent", "workspace", "entity_type", "association", "primitive_type", "properties", "modifiable", "image", "tag", "visual_parameters", "depths",
        "receivers", "transmitters", "base_stations", "current_electrodes", "potential_electrodes", "ab_cell_id", "tx_id_property", "channels", "unit", "input_type", "loop_radius",
        "timing_mark", "waveform", "inline_offset", "crossline_offset", "vertical_offset", "pitch", "roll", "yaw", "relative_to_bearing", "coordinate_reference_system", "colour", "map"}
SCALARS = {"name", "allow_delete", "allow_move", "allow_rename", "public", "visible", "partially_hidden", "rotation", "dip", "u_count", "v_count", "w_count", "u_cell_size", "v_cell_size", "w_cell_size",
           "vertical", "cost", "planning", "end_of_hole", "last_focus", "description", "units", "hidden", "number_of_bins", "transparent_no_data", "mapping", "allow_delete_content", "allow_move_content"}


def floors(tier):
    return {"classes": 60, "pairs": 500, "C03.live": 800, "C03.reopen": 800, "C03.raw": 300, "ordered-sequences": 50, "clearing-assignments": 20, "inplace-assignments": 40, "closed-workspace-assignments-refused": 4, "colour-map-object-edits": 1}


def EXHAUSTIVE(tier):
    return "all discovered (class, assignable attribute) pairs"


def class_list():
    classes = gen.concrete_entity_classes()
    out = [("object", c) for c in classes["objects"]] + [("group", c) for c in classes["groups"]]
    out += [("data", k) for k in ["float", "integer", "boolean", "referenced", "text_object", "text_array", "filename", "comments"]]
    out += [("type", "DataType"), ("type", "ObjectType"), ("type", "GroupType"), ("pg", "PropertyGroup"), ("header", "Workspace"), ("concat", "ConcatenatedDrillhole"), ("concat", "ConcatenatedData"), ("concat", "Concatenator")]
    return out


def gen_cases(tier, seed):
    reps = 1 if tier == "quick" else 5
    return [{"kind": k, "cls": c, "rep": r, "nvalues": 2 if tier == "quick" else 4} for r in range(reps) for k, c in class_list()]


# ------------------------------------------------------------------------------------------
def settable(cls):
    from geoh5py.shared.utils import KEY_MAP

    amap = {v.split(":")[0] for v in getattr(cls, "_attribute_map", {}).values()}
    named = amap | set(KEY_MAP) | {"metadata", "options", "units", "mapping", "color_map", "value_map", "description", "name", "last_focus", "collar", "origin", "parts", "file_name"}
    out = []
    for n in dir(cls):
        p = inspect.getattr_static(cls, n, None)
        if isinstance(p, property) and p.fset is not None and not n.startswith("_") and n in named and n not in SKIP:
            out.append(n)
    return sorted(out)


CLEARABLE = {"color_map", "metadata", "units"}


def values_for(e, attr, rng, k):
    """Up to k valid values for `attr` of `e`, plus the special recipes: in-place edit of the getter's array, and None
    where the API documents None as 'remove'."""
    vals = plain_values_for(e, attr, rng, k)
    if not vals:
        return vals
    cur = None
    try:
        cur = getattr(e, attr)
    except Exception:  # noqa: BLE001
        pass
    if attr in INPLACE_ATTRS and isinstance(cur, np.ndarray) and cur.size > 0 and cur.dtype.kind in "fiub" + "V":
        vals = vals[: max(1, k - 1)] + [InPlace()]
    if attr in CLEARABLE and cur is not None:
        vals = vals[: max(1, k - 1)] + [None]
    return vals


def plain_values_for(e, attr, rng, k):
    """k distinct valid values for attribute `attr` of entity `e` (None = no generator)."""
    cur = None
    try:
        cur = getattr(e, attr)
    except Exception:  # noqa: BLE001
        pass
    cname = type(e).__name__

    def pick(pool):
        pool = [p for p in pool if canon(p) != canon(cur)]
        rng.shuffle(pool)
        return pool[:k]

    if attr in FLAGS or attr in ("hidden", "transparent_no_data", "vertical"):
        return [not bool(cur), bool(cur)][:k]
    if attr in ("allow_delete_content", "allow_move_content"):
        return [not bool(cur), bool(cur)][:k]
    if attr == "name":
        if cname == "CommentsData" or getattr(e, "name", "") in ("UserComments", "Visual Parameters", "DEPTH", "FROM", "TO"):
            return None
        return pick(["renamed", "ünï cödé ✓", "with/slash", "x" * 60, "n 2"])
    if attr == "file_name":
        return pick(["renamed.dat", "b.bin", "with space.txt"]) if cname == "FilenameData" and cur is not None else None
    if attr == "description":
        return pick(["a description", "déscription", ""])
    if attr == "units":
        return pick(["ppm", "g/t", "nT"])
    if attr == "mapping":
        return pick(["linear", "equal_area", "logarithmic", "cdf"])
    if attr == "number_of_bins":
        return pick([10, 50, 128, 300, 1000, np.int32(300), np.int64(70000)])
    if attr == "last_focus":
        return pick(["None", "View 1"])
    if attr == "rotation":
        return pick([30.0, -45.0, 90.0, 12.5, 60])
    if attr == "dip":
        # while `vertical` is set the only valid dip is 90 (documented dependency of the two attributes)
        return pick([15.0, 45.0, 90.0, 60.0, 30, 90]) if cname == "Grid2D" and not e.vertical else None
    if attr == "origin":
        return pick([[1.0, 2.0, 3.0], [-10.5, 0.0, 99.0], [1e5, -1e5, 0.5]])
    if attr in ("u_count", "v_count", "w_count"):
        return pick([2, 4, 8]) if cname == "Octree" else pick([2, 3, 5, 7])
    if attr in ("u_cell_size", "v_cell_size", "w_cell_size"):
        return pick([0.5, 2.0, 12.5, 3])
    if attr in ("u_cell_delimiters", "v_cell_delimiters", "z_cell_delimiters"):
        return pick([np.array([0.0, 1.0, 3.0]), np.array([0.0, -2.0, -4.0, -8.0]), np.array([0.0, 5.0])])
    if attr == "collar":
        return [[1.5e-05, -2e-07, 1e16]] + pick([[1.0, 2.0, 3.0], [-5.0, 10.5, 250.0]])[: max(k - 1, 1)]  # coordinates print in any notation
    if attr == "surveys":
        return pick([np.array([[0.0, 10.0, -80.0], [25.0, 20.0, -70.0]]), np.array([[0.0, 0.0, -90.0], [10.0, 45.0, -60.0], [30.0, 90.0, -45.0]])])
    if attr == "cost":
        return pick([1.5, 100.0, 0.25, 7, 120])  # integers are numbers too: what is written must be readable again
    if attr == "planning":
        return pick(["Ongoing", "Planned", "Completed", "No status"])
    if attr == "end_of_hole":
        return pick([10.0, 55.5, 40, 99])
    if attr == "default_collocation_distance":
        return pick([0.5, 0.001])
    if attr == "vertices":
        v = getattr(e, "vertices", None)
        if v is None:
            return None
        if cname == "GeoImage":
            return pick([np.asarray(v) + 1.0, np.asarray(v) * 2.0])
        return pick([np.asarray(v) + 1.0, np.vstack([np.asarray(v), np.asarray(v)[:1] + 100.0]), np.asarray(v) * -1.0])
    if attr == "cells":
        c = getattr(e, "cells", None)
        if c is None or cname in ("GeoImage", "Drillhole") or len(c) == 0:
            return None
        rev = np.asarray(c)[::-1].copy()
        return pick([rev.astype("uint32"), np.vstack([np.asarray(c), np.asarray(c)[:1]]).astype("uint32")])
    if attr == "parts":
        n = len(e.vertices) if getattr(e, "vertices", None) is not None else 0
        if n < 4 or cname in ("Drillhole",):
            return None
        a = np.r_[np.zeros(n // 2), np.ones(n - n // 2)].astype("int32")
        b = np.r_[np.zeros(2), np.ones(n - 4), np.full(2, 2)].astype("int32") if n >= 6 else np.zeros(n, dtype="int32")
        return pick([a, b])
    if attr == "octree_cells":
        c = e.octree_cells
        arr = np.array([tuple(x) for x in c.tolist()], dtype="int32")
        return pick([arr[::-1].copy(), arr.copy()])
    if attr == "layers":
        lay = e.layers
        return pick([np.c_[lay[:, 0], lay[:, 1], lay[:, 2] - 1.0], np.c_[lay[:, 0], lay[:, 1], lay[:, 2] * 2.0]])
    if attr == "prisms":
        pr = e.prisms
        return pick([np.c_[pr[:, 0] + 1.0, pr[:, 1:]], np.c_[pr[:, :2], pr[:, 2] + 5.0, pr[:, 3:]]])
    if attr == "metadata":
        if any(x in cname for x in ("Receivers", "Transmitters", "Electrode", "BaseStations")):
            return None
        return pick([{"a": 1}, {"b": "text", "c": [1, 2]}, {"id": uuid.uuid4()}])
    if attr == "options":
        return pick([{"title": "t", "n": 1}, {"run": True, "x": 2.5}])
    if attr == "current_line_id":
        return pick([uuid.uuid4(), uuid.uuid4()])
    if attr == "color_map":
        from geoh5py.data.color_map import ColorMap

        return [ColorMap(values=np.c_[np.linspace(0, 1, 3 + i), np.arange(3 + i) * 10, np.arange(3 + i) * 5, np.arange(3 + i), np.ones(3 + i) * 255], name=f"cm{i}") for i in range(k)]
    if attr == "value_map":
        return pick([{1: "A", 2: "B"}, {1: "one", 5: "fïve", 9: "nine"}])
    if attr == "values":
        v = cur
        if isinstance(v, np.ndarray) and v.dtype.kind == "f":
            return pick([v + 1.0, v * -2.0, np.where(np.arange(len(v)) == 0, np.nan, v)])
        if isinstance(v, np.ndarray) and v.dtype.kind == "b":
            return pick([~v, v])
        if isinstance(v, np.ndarray) and v.dtype.kind in "iu":
            return pick([(v % 3 + 1).astype("int32"), (v * 0 + 2).astype("int32")])
        if isinstance(v, np.ndarray) and v.dtype.kind in "US":
            return pick([np.array([x + "!" for x in v.tolist()]), np.array(["ü"] * len(v))])
        if isinstance(v, str):
            return pick(["new text", "ünï ✓"])
        if isinstance(v, bytes):
            return pick([b"\x00\x01", b"other bytes"])
        if isinstance(v, list):
            return pick([v + [{"Author": "a", "Date": "2020-01-01T00:00:00", "Text": "more"}]])
        return None
    if attr == "property_group_type":
        return pick(["3D vector", "Strike & dip", "Multi-element"])
    return None


class InPlace:
    """Value recipe: read the attribute, edit the returned array in place, assign the same object back."""

    def __init__(self, delta=1.0):
        self.delta = delta

    def realise(self, e, attr):
        arr = getattr(e, attr)
        if arr.dtype.names:
            name = arr.dtype.names[-1]
            arr[name][0] = arr[name][0] + arr.dtype[name].type(self.delta)
        elif arr.dtype.kind == "b":
            arr[0] = ~arr[0]
        elif arr.dtype.kind in "iu":
            arr.flat[0] = arr.flat[0] + 1 if arr.ndim == 1 else arr.flat[0]
            if arr.ndim > 1:  # cells: swap two rows so that indices stay valid
                arr[[0, -1]] = arr[[-1, 0]]
        else:
            arr.flat[0] = arr.flat[0] + self.delta
        return arr


INPLACE_ATTRS = {"vertices", "cells", "values", "surveys", "layers", "prisms", "u_cell_delimiters", "v_cell_delimiters", "z_cell_delimiters", "octree_cells"}


def flat(v):
    """Flatten numbers / strings of nested lists, arrays, structured arrays for tolerant comparison."""
    if isinstance(v, np.ndarray):
        return flat(v.tolist())
    if isinstance(v, np.void):
        return flat(v.tolist())
    if isinstance(v, (list, tuple)):
        out = []
        for x in v:
            out += flat(x)
        return out
    if isinstance(v, (np.floating, np.integer, np.bool_)):
        return [v.item()]
    return [v]


def matches(v, got):
    """Does the getter's value reflect the assigned value (modulo the setter's normalisation)?"""
    if hasattr(v, "_values") and hasattr(got, "_values"):  # ColorMap
        return np.array_equal(np.asarray(flat(v._values), dtype=float), np.asarray(flat(got._values), dtype=float))  # noqa: SLF001
    if hasattr(got, "map") and isinstance(v, dict):
        return all(got.map.get(k) == x for k, x in v.items())
    if isinstance(v, dict):
        return isinstance(got, dict) and all(canon(got.get(k)) == canon(x) for k, x in v.items())
    a, b = flat(v), flat(got)
    if len(a) != len(b):
        return False
    for x, y in zip(a, b):
        if isinstance(x, float) and isinstance(y, float) and x != x and y != y:
            continue
        if isinstance(x, (int, float)) and isinstance(y, (int, float)) and not isinstance(x, bool) and not isinstance(y, bool):
            if abs(float(x) - float(y)) > 1e-6 * max(1.0, abs(float(x))):
                return False
            continue
        if x != y and str(x) != str(y):
            return False
    return True


def fetch(ws, kind, uid, extra=None):
    """Resolve the subject of a case in an open workspace."""
    if kind == "header":
        return ws
    if kind == "type":
        e = ws.get_entity(uid)[0]
        return e.entity_type
    if kind == "pg":
        e = ws.get_entity(uid)[0]
        return e.property_groups[0]
    if isinstance(uid, tuple):  # concatenated data are reached through their hole
        hole = ws.get_entity(uid[0])[0]
        return hole.get_entity(uid[1])[0]
    return ws.get_entity(uid)[0]


def build_subject(ws, kind, cname, rng):
    """Create the stored subject; returns the uid used to fetch it again."""
    from geoh5py.groups import DrillholeGroup
    from geoh5py.objects import Drillhole, Points

    if kind == "object":
        o = gen.build_object(ws, cname, rng=rng, name="subject", base=10) if cname in gen.ALL_OBJECTS else gen.object_class(cname).create(ws, name="subject")
        return o.uid
    if kind == "group":
        g = gen.group_class(cname).create(ws, name="subject")
        if cname in ("SimPEGGroup", "UIJsonGroup"):
            g.options = {"seed": 0}
        return g.uid
    if kind == "header":
        return None
    pts = Points.create(ws, vertices=gen.tagged_vertices(5, 0, rng), name="holder")
    if kind == "data":
        if cname == "text_array":
            d = pts.add_data({"subject": {"values": np.array(["a", "b", "c", "d", "e"]), "association": "VERTEX", "type": "text"}})
        elif cname == "filename":
            d = pts.add_file(b"initial bytes", name="subject.bin")
        elif cname == "comments":
            pts.add_comment("first", author="me")
            d = pts.comments
        else:
            spec, _ = gen.data_spec(pts, cname, "VERTEX" if cname != "text_object" else "OBJECT", rng, tag=2)
            d = pts.add_data({"subject": spec})
        return d.uid
    if kind == "type":
        if cname == "DataType":
            spec, _ = gen.data_spec(pts, "referenced", "VERTEX", rng, tag=2)
            return pts.add_data({"subject": spec}).uid
        if cname == "ObjectType":
            return pts.uid
        return gen.group_class("ContainerGroup").create(ws, name="typed").uid
    if kind == "pg":
        d = pts.add_data({"a": {"values": np.arange(5.0)}, "b": {"values": np.arange(5.0)}, "c": {"values": np.arange(5.0)}})
        pts.add_data_to_group(d, "subject")
        return pts.uid
    if kind == "concat":
        dh = DrillholeGroup.create(ws, name="DH")
        h = Drillhole.create(ws, parent=dh, name="hole", collar=[0.0, 0.0, 10.0], surveys=np.array([[0.0, 0.0, -90.0], [20.0, 10.0, -80.0]]))
        d = h.add_data({"assay": {"depth": np.arange(4.0) + 0.5, "values": np.arange(4.0)}}, property_group="dtab")
        return {"ConcatenatedDrillhole": h.uid, "ConcatenatedData": (h.uid, d.uid), "Concatenator": dh.uid}[cname]
    raise KeyError(kind)


def raw_attr(path, kind, subject, attr):
    """(found, value) of the raw HDF5 attribute behind a scalar attribute, for ordinary entities and types."""
    rev = {v: k for k, v in getattr(type(subject), "_attribute_map", {}).items()}
    key = rev.get(attr)
    if key is None or kind in ("header", "concat", "pg") or attr not in SCALARS:
        return False, None
    with h5py.File(path, "r") as h5:
        base = h5[list(h5)[0]]
        if kind == "type":
            for tk in base["Types"]:
                node = base["Types"][tk].get("{" + str(subject.uid) + "}")
                if node is not None:
                    break
        else:
            node = None
            for cont in ("Data", "Groups", "Objects"):
                node = base[cont].get("{" + str(subject.uid) + "}")
                if node is not None:
                    break
        if node is None or key not in node.attrs:
            return True, "<absent>"
        v = node.attrs[key]
        if isinstance(v, bytes):
            v = v.decode()
        return True, v


HEADER_VALUES = {"distance_unit": ["feet", "kilometer"], "contributors": [["ann", "bob"], ["cy"]], "ga_version": ["4.2", "3.9"], "version": [2.1, 1.5]}


def attrs_of(kind, subject):
    if kind == "header":
        return sorted(HEADER_VALUES)
    if kind == "pg":
        return ["name", "property_group_type"]
    return settable(type(subject))


def same(a, b):
    return canon(a) == canon(b) or matches(a, b)


def writable_session(rec, path, how):
    """The ways a user gets a writable session on a stored file: asked for at construction (three times out of four), or a
    workspace object first made for reading and then re-opened / elevated for writing."""
    from geoh5py.workspace import Workspace

    if how == 3:
        ws = Workspace(path, mode="r")
        ws.close()
        ws.open(mode="r+")
        rec.see("sessions-reopened-for-writing")
        return ws
    return Workspace(path, mode="r+")


def safe_get(subject, attr):
    try:
        return getattr(subject, attr)
    except Exception as exc:  # noqa: BLE001
        return f"<raises {type(exc).__name__}: {exc}>"


def judge_reader(rec, path, kind, uid, label, expect, tag, coupled=None):
    """A later reader of the closed file: getters == what the live session showed; raw attribute agrees.
    Returns False when the file can no longer be read at all."""
    from geoh5py.workspace import Workspace

    first = sorted(expect)[0] if len(expect) == 1 else "*"
    try:
        ws2 = Workspace(path, mode="r")
        s2 = fetch(ws2, kind, uid)
    except Exception as exc:  # noqa: BLE001
        if not exc_origin(exc)[0]:
            raise
        rec.check("C03.file-readable", False, op=tag, cls=label, attr=first, detail=f"after assigning {sorted(expect)} and closing, opening the file raises {type(exc).__name__}: {short(str(exc), 200)}")
        return False
    rec.check("C03.file-readable", True, op=tag, cls=label, attr=first)
    n_fail = len(rec.failures)
    try:
        for attr, (assigned, live) in expect.items():
            got = safe_get(s2, attr)
            bad = isinstance(got, str) and got.startswith("<raises")
            rec.check("C03.reopen", not bad and same(live, got), op=tag, cls=label, attr=attr,
                      detail=f"last assigned {short(canon(assigned) if not isinstance(assigned, InPlace) else 'in-place edit of the getter array', 140)}, live getter before close {short(canon(live), 140)}; a fresh reader sees {short(canon(got), 140)}")
            if attr == "parts" and not bad:
                cells, parts = safe_get(s2, "cells"), np.asarray(got)
                ok_cells = isinstance(cells, np.ndarray) and len(cells) == len(parts) - len(set(parts.tolist())) and all(parts[a] == parts[b] for a, b in cells.tolist())
                rec.check("C03.reopen", ok_cells, op=tag, cls=label, attr="parts->cells", detail=f"parts {parts.tolist()} were assigned; a fresh reader's cells are {short(canon(cells), 160)}")
            found, raw = raw_attr(path, kind, s2, attr)
            if found and live is None:
                rec.check("C03.raw", isinstance(raw, str) and raw == "<absent>", op=tag, cls=label, attr=attr, detail=f"live value None; raw HDF5 attribute still holds {short(canon(raw), 100)}")
            elif found:
                exp = int(live) if isinstance(live, (bool, np.bool_)) else live
                rec.check("C03.raw", not (isinstance(raw, str) and raw == "<absent>") and matches(exp, raw if not isinstance(raw, np.ndarray) else raw.tolist()), op=tag, cls=label, attr=attr,
                          detail=f"live value {short(canon(live), 100)}; raw HDF5 attribute holds {short(canon(raw), 100)}")
        if coupled:
            only = sorted(expect)[0]
            for other, live in coupled.items():
                if isinstance(live, str) and live.startswith("<raises"):
                    continue
                got = safe_get(s2, other)
                rec.check("C03.reopen", same(live, got), op=tag, cls=label, attr=f"{only}->{other}",
                          detail=f"after assigning {only}, the live entity showed {other} = {short(canon(live), 120)}; a fresh reader sees {short(canon(got), 120)}")
    finally:
        ws2.close()
    return "clean" if len(rec.failures) == n_fail else "mismatch"


def assign(rec, subject, attr, v, label, tag):
    """Assign; returns the session tag if accepted, None if the setter refused.  The live getter must reflect an accepted assignment."""
    if isinstance(v, InPlace):
        v = v.realise(subject, attr)
        expected = np.array(v, copy=True)
        tag = tag + "-inplace"
        rec.see("inplace-assignments")
    elif v is None:
        expected = None
        tag = tag + "-clear"
        rec.see("clearing-assignments")
    else:
        expected = v
    try:
        setattr(subject, attr, v)
    except Exception as exc:  # noqa: BLE001
        if not exc_origin(exc)[0]:
            raise
        rec.see("rejected-values")
        rec.see(f"rejected:{attr}:{type(exc).__name__}")
        return None
    got = safe_get(subject, attr)
    ok = (got is None or got == {} ) if expected is None else matches(expected, got)
    rec.check("C03.live", ok, op=tag, cls=label, attr=attr, detail=f"assigned {short(canon(expected), 160)}, getter returns {short(canon(got), 160)}")
    return tag


def run_case(case, rec):
    from geoh5py.workspace import Workspace

    warnings.simplefilter("ignore")
    rng = random.Random(case["seed"])
    kind, cname = case["kind"], case["cls"]
    d = tempfile.mkdtemp(prefix="gvm_")
    path = os.path.join(d, "w.geoh5")
    try:
        def rebuild():
            if os.path.exists(path):
                os.remove(path)
            # the header case starts from an integer-typed version number, so that a later fractional one must change the stored type
            w = Workspace.create(path, **({"version": 2} if kind == "header" else {}))
            u = build_subject(w, kind, cname, random.Random(case["seed"] + 1))
            w.close()
            return u

        uid = rebuild()
        ws = Workspace(path, mode="r")
        subject = fetch(ws, kind, uid)
        label = type(subject).__name__
        attrs = attrs_of(kind, subject)
        ws.close()
        del subject
        rec.see("classes")
        judged = []
        # 1. every (attribute, value) alone in its own open ... close session on the stored entity
        for n_attr, attr in enumerate(attrs):
            n_ok = 0
            if n_attr and kind == "concat":  # concatenated storage is keyed by names: judge every attribute from a pristine file
                uid = rebuild()
            for i in range(case["nvalues"]):
                ws = writable_session(rec, path, (i + 2 * n_attr) % 4)
                subject = fetch(ws, kind, uid)
                if (i + 3 * n_attr) % 5 == 4 and kind != "header":
                    # an earlier attempt on the same entity failed (the workspace had been closed): the accepted one that
                    # follows on the re-opened workspace counts all the same
                    ws.close()
                    try:
                        setattr(subject, "name" if hasattr(type(subject), "name") else attr, getattr(subject, "name", None) or "x")
                    except Exception as exc:  # noqa: BLE001
                        if not exc_origin(exc)[0]:
                            raise
                        rec.see("failed-attempt-before-session")
                    subject = None
                    ws.open(mode="r+")
                    subject = fetch(ws, kind, uid)
                vals = HEADER_VALUES[attr] if kind == "header" else values_for(subject, attr, rng, case["nvalues"])
                if not vals or i >= len(vals):
                    ws.close()
                    break
                v = vals[i]
                ok = assign(rec, subject, attr, v, label, "alone")
                live = safe_get(subject, attr)
                # attributes are coupled (dip / vertical, surveys / end_of_hole, ...): everything the entity shows now is what a
                # later reader must see, not only the attribute that was assigned
                # (read in every other session only: a getter called between the assignment and the close may itself repair or
                # complete what the setter left, and a session that only assigns and closes is the plainer use)
                coupled = {a: safe_get(subject, a) for a in attrs if a != attr and a not in ("parts",)} if kind not in ("header",) and (i + n_attr) % 2 == 0 else {}
                rec.see("sessions-that-only-assign" if not coupled else "sessions-reading-other-getters")
                del subject
                ws.close()
                if ok:
                    verdict = judge_reader(rec, path, kind, uid, label, {attr: (v, live)}, ok, coupled)
                    if verdict == "clean":
                        n_ok += 1
                    if kind == "header" and verdict == "clean":
                        # the same assignment on the closed workspace object: refused, or stored like any other accepted one
                        v2 = vals[(i + 1) % len(vals)]
                        try:
                            setattr(ws, attr, v2)
                            taken = True
                        except Exception as exc:  # noqa: BLE001
                            if not exc_origin(exc)[0]:
                                raise
                            taken = False
                            rec.see("closed-workspace-assignments-refused")
                        if taken:
                            rec.see("closed-workspace-assignments-accepted")
                            if judge_reader(rec, path, kind, uid, label, {attr: (v2, v2)}, "assign-while-closed") != "clean":
                                uid = rebuild()
                    if verdict != "clean":  # lost or unreadable: start again from a fresh file so that later attributes are judged on their own
                        uid = rebuild()
                        if verdict is False:  # and leave an attribute that breaks the file out of the sequences
                            n_ok = 0
                            break
            if n_ok:
                rec.see("pairs")
                judged.append(attr)
            else:
                rec.see("uncovered-pairs")
                rec.see(f"uncovered:{label}.{attr}")
        # 2. all attributes in one session, in a seeded order (each attribute is sometimes the last write)
        if len(judged) >= 2:
            order = [a for a in judged if a != "parts"]  # parts is a view of cells / vertices: judged on its own only
            rng.shuffle(order)
            ws = Workspace(path, mode="r+")
            subject = fetch(ws, kind, uid)
            finals = {}
            for attr in order:
                vals = HEADER_VALUES[attr] if kind == "header" else values_for(subject, attr, rng, 2)
                v = rng.choice(vals) if vals else None
                if vals and assign(rec, subject, attr, v, label, "sequence"):
                    finals[attr] = v
            expect = {a: (v, safe_get(subject, a)) for a, v in finals.items()}
            del subject
            ws.close()
            judge_reader(rec, path, kind, uid, label, expect, "sequence")
            rec.see("ordered-sequences")
            rec.see("last-in-sequence:" + order[-1])
        # 3. a stored data entity is given a brand-new type, which is then edited in the same session
        if kind == "data" and cname in ("float", "integer", "referenced", "boolean", "text_object", "text_array"):
            from geoh5py.data import DataType

            uid = rebuild()
            ws = Workspace(path, mode="r+")
            subject = fetch(ws, kind, uid)
            old = subject.entity_type
            edits = {}
            try:
                new = DataType(ws, primitive_type=old.primitive_type, name="swapped in")
                subject.entity_type = new
                rec.check("C03.live", subject.entity_type is new, op="type-swap", cls=label, attr="entity_type", detail="data.entity_type does not return the assigned type")
                for attr, v in [("units", "pT"), ("description", "edited after the swap"), ("name", "renamed after the swap")] + ([("mapping", "linear")] if cname == "float" else []):
                    if assign(rec, new, attr, v, "DataType", "type-swap-then-edit"):
                        edits[attr] = v
                new_uid = new.uid
            except Exception as exc:  # noqa: BLE001
                if not exc_origin(exc)[0]:
                    raise
                rec.see("rejected:type-swap:" + type(exc).__name__)
                new_uid = None
            del subject, old
            ws.close()
            if new_uid is not None:
                ws2 = Workspace(path, mode="r")
                try:
                    t2 = fetch(ws2, kind, uid).entity_type
                    rec.check("C03.reopen", t2.uid == new_uid, op="type-swap", cls=label, attr="entity_type", detail=f"a fresh reader finds type {t2.uid} ({t2.name!r}) on the data, the session assigned {new_uid}")
                    for attr, v in edits.items():
                        rec.check("C03.reopen", getattr(t2, attr) == v, op="type-swap-then-edit", cls="DataType", attr=attr, detail=f"type swapped in, then {attr} = {v!r}; a fresh reader sees {getattr(t2, attr)!r}")
                finally:
                    ws2.close()
                rec.see("type-swaps")
        # 4. the colour map of a stored data type edited through the ColorMap object itself (values, name)
        if kind == "type" and cname == "DataType":
            from geoh5py.data.color_map import ColorMap

            uid = rebuild()
            ws = Workspace(path, mode="r+")
            subject = fetch(ws, kind, uid)
            took = assign(rec, subject, "color_map", ColorMap(values=np.c_[np.linspace(0, 1, 4), np.zeros((4, 3)), np.ones(4) * 255], name="first.TBL"), label, "colour-map")
            del subject
            ws.close()
            if took:
                for step, (attr, v) in enumerate([("values", np.c_[np.linspace(0, 1, 5), np.arange(5) * 9, np.arange(5) * 7, np.arange(5), np.ones(5) * 255]), ("name", "other.TBL")][:: 1 if case["seed"] % 2 else -1]):
                    ws = Workspace(path, mode="r+")
                    cm = fetch(ws, kind, uid).color_map
                    tag = None
                    if cm is not None:
                        try:
                            setattr(cm, attr, v)
                            tag = "colour-map-object"
                            got = safe_get(cm, attr)
                            shown = got
                            if attr == "values" and isinstance(got, np.ndarray):  # the getter shows one row per field
                                shown = np.c_[tuple(got[n] for n in got.dtype.names)] if got.dtype.names else (got.T if got.ndim == 2 and got.shape[0] == 5 else got)
                            rec.check("C03.live", matches(v, shown), op=tag, cls="ColorMap", attr=attr, detail=f"assigned {short(canon(v), 160)}, getter returns {short(canon(shown), 160)}")
                        except Exception as exc:  # noqa: BLE001
                            if not exc_origin(exc)[0]:
                                raise
                            rec.see(f"rejected:colour-map-object.{attr}:{type(exc).__name__}")
                    live = {a: safe_get(cm, a) for a in ("values", "name")} if cm is not None else {}
                    del cm
                    ws.close()
                    if tag:
                        ws2 = Workspace(path, mode="r")
                        try:
                            cm2 = fetch(ws2, kind, uid).color_map
                            for a, lv in live.items():
                                got = safe_get(cm2, a) if cm2 is not None else None
                                rec.check("C03.reopen", got is not None and same(lv, got), op="colour-map-object", cls="ColorMap", attr=a,
                                          detail=f"{attr} assigned on the stored type's ColorMap object; live {a} before close {short(canon(lv), 140)}; a fresh reader sees {short(canon(got), 140)}")
                        finally:
                            ws2.close()
                        rec.see("colour-map-object-edits")
        rec.nontrivial = len(judged) >= 2
        rec.shape = [kind, cname, sorted(judged)]
        rec.sample = {"class": label, "attributes": sorted(judged)[:14]}
    finally:
        shutil.rmtree(d, ignore_errors=True)
        gc.collect()
