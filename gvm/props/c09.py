"""C09 — an operation on one entity leaves unrelated stored entities untouched.

Per-node digests of the file (plain h5py on the live handle) are taken immediately before and after
every single API mutation of seeded histories; every changed, created or deleted node must lie in
the operation's allowed footprint, which is computed from the reference model (target node, parents
left/joined, nodes created/deleted, types introduced or no longer used, the data's type node for
StatsCache).  Opening and closing without mutation must change nothing (digests and bytes)."""
from __future__ import annotations

import gc
import hashlib
import os
import random
import shutil

from .. import hist, snap
from ..core import short

PROP = "C09"
LEVEL = "exploration"
RULE = (
    "case = one seeded API history; every operation is bracketed by two digest passes over all nodes of the file; "
    "plus no-op open/close cases in modes r, r+, a on files produced by histories. evaluations = histories; "
    "clause evaluations count (operation, node) pairs; non-trivial = >= 5 bracketed mutating ops on a file with >= 4 "
    "nodes; distinct = distinct op-kind/class sequence."
)
ASSUMPTIONS = [
    "allowed footprint is derived from the reference model, not from the library",
    "flat nodes of entities removed through their parent may disappear at any later operation (lazy sweeping)",
]
MUTATING = {"type_rename", "mk_group", "mk_object", "add_data", "set_values", "rename", "flag", "metadata", "move", "move_data", "copy", "remove", "pg_add", "pg_create_empty", "pg_remove_data", "pg_delete", "comment", "add_file", "remove_protected", "remove_refused"}


def floors(tier):
    return {"C09.collateral": 3000, "bracketed-ops": 800, "C09.noop-changed": 60, "op:remove": 30, "op:copy": 30, "op:move": 30, "op:set_values": 30}


def gen_cases(tier, seed):
    n = 160 if tier == "quick" else 3000
    cases = []
    for i in range(n):
        cases.append({"kind": "history", "profile": ["mixed", "churn", "pg"][i % 3], "n_ops": [10, 14, 20][i % 3] if tier == "quick" else [15, 25, 40][i % 3], "gc": ["default", "every", "seeded"][(i // 3) % 3], "refs": ["strong", "refetch"][(i // 9) % 2], "noop": i % 4 == 0})
    return cases


PROFILES = {
    "mixed": {"reopen": 0.6},
    "churn": {"remove": 3.5, "copy": 2.5, "move": 3.0, "rename": 2.0, "reopen": 1.0, "gc": 1.0, "listing": 1.0, "move_data": 1.5},
    "pg": {"add_data": 6.0, "pg_add": 4.0, "pg_remove_data": 2.0, "pg_delete": 1.0, "remove": 3.0, "set_values": 4.0, "flag": 2.0},
}


class C09Monitor(hist.Monitor):
    def __init__(self):
        self.before_raw = None
        self.before_dig = None
        self.bracketed = 0
        self.max_nodes = 0

    def _snap(self, eng):
        try:
            h5 = eng.ws.geoh5
        except Exception:  # noqa: BLE001
            return None, None
        raw = snap.raw_snapshot(h5)
        return raw, snap.node_digests(raw)

    def before(self, eng, op):
        self.before_raw, self.before_dig = self._snap(eng)

    def after(self, eng, op, ok):
        if self.before_dig is None:
            return
        raw1, d1 = self._snap(eng)
        if d1 is None:
            return
        rec = eng.rec
        d0, raw0 = self.before_dig, self.before_raw
        fp = eng.last_footprint
        kind = op["op"]
        if kind in MUTATING and not op.get("refused"):
            self.bracketed += 1
            rec.see("bracketed-ops")
        self.max_nodes = max(self.max_nodes, len(d1))
        pending = set(eng.pending_victims) | set(eng.parent_removed)
        created = set(d1) - set(d0)
        deleted = set(d0) - set(d1)
        # types referenced by the nodes the op may touch
        allowed_types = set()
        for p in set(fp["content"]) | set(fp["delete"]):
            for raw in (raw0, raw1):
                t = (raw["nodes"].get(p) or {}).get("type") or {}
                if t.get("id"):
                    for tk in ("Data types", "Group types", "Object types"):
                        allowed_types.add(f"Types/{tk}/{t['id']}")
        for tu in fp.get("types", ()):
            for tk in ("Data types", "Group types", "Object types"):
                allowed_types.add(f"Types/{tk}/{{{tu}}}")
        cls = op.get("cls", "")
        for p in sorted(created):
            rec.evals["C09.collateral"] += 1
            if p.startswith("Types/"):
                if not fp["any_type"]:
                    rec.fail("C09.collateral", op=kind, cls=cls, attr="type-created", detail=f"{kind} created type node {p}", counted=True)
            elif not fp["create"]:
                rec.fail("C09.collateral", op=kind, cls=cls, attr="node-created:" + p.split("/")[0], detail=f"{kind} ({short(op, 200)}) created {p}", counted=True)
        for p in sorted(deleted):
            rec.evals["C09.collateral"] += 1
            if p.startswith("Types/"):
                # a type may go once nothing that is still part of the project uses it (deferred sweep of an
                # earlier removal); deleting a type that a surviving entity links to is collateral damage
                tid = p.rsplit("/", 1)[1].lower()
                users = [q for q, r in raw1["nodes"].items() if q not in pending and str(((r.get("type") or {}).get("id")) or "").lower() == tid]
                if users:
                    rec.fail("C09.collateral", op=kind, cls=cls, attr="type-deleted-in-use", detail=f"{kind} deleted type node {p} still used by {users[:3]}", counted=True)
            elif p not in fp["delete"] and p not in pending:
                rec.fail("C09.collateral", op=kind, cls=cls, attr="node-deleted:" + p.split("/")[0], detail=f"{kind} ({short(op, 200)}) deleted {p}, which is not a victim of this or an earlier removal", counted=True)
        for p in sorted(set(d0) & set(d1)):
            rec.evals["C09.collateral"] += 1
            a, b = d0[p], d1[p]
            if a["content"] != b["content"]:
                ok_c = p in fp["content"] or p in allowed_types or p in pending
                if p == "<project>":
                    ok_c = False
                if not ok_c and p.startswith("Types/"):
                    # a type node that no stored entity used before the op (left behind by earlier removals) is nobody's:
                    # the entity that now takes the identifier over may bring its own attributes
                    tid = p.rsplit("/", 1)[1].lower()
                    users0 = [q for q, r in raw0["nodes"].items() if q not in pending and str(((r.get("type") or {}).get("id")) or "").lower() == tid]
                    if not users0:
                        ok_c = True
                        rec.see("unused-type-node-taken-over")
                if not ok_c:
                    what = _what_changed(raw0, raw1, p)
                    rec.fail("C09.collateral", op=kind, cls=cls, attr="content:" + _nk(p), detail=f"{kind} ({short(op, 200)}) changed attributes/datasets of {p}: {what}", counted=True)
            if a["links"] != b["links"]:
                ok_l = p in fp["links"] or p in pending or p in fp["content"] and kind in ("copy",)
                if p == "<project>":
                    ok_l = bool(created or deleted)
                if not ok_l:
                    rec.fail("C09.collateral", op=kind, cls=cls, attr="links:" + _nk(p), detail=f"{kind} ({short(op, 200)}) changed the child list of {p}", counted=True)
        if self.bracketed >= 5 and self.max_nodes >= 4:
            rec.nontrivial = True


def _nk(p):
    return "project" if p == "<project>" else ("type" if p.startswith("Types/") else p.split("/")[0])


def _what_changed(raw0, raw1, p):
    if p == "<project>":
        return short({"before": raw0.get("attrs"), "after": raw1.get("attrs")}, 300)
    if p.startswith("Types/"):
        a, b = raw0["types"].get(p[6:]), raw1["types"].get(p[6:])
    else:
        a, b = raw0["nodes"].get(p), raw1["nodes"].get(p)
    from ..core import diff_paths

    return short([(x[0], x[1], x[2]) for x in diff_paths({k: v for k, v in (a or {}).items() if k not in ("addr", "rc", "children")}, {k: v for k, v in (b or {}).items() if k not in ("addr", "rc", "children")}, limit=3)], 400)


def sha(path):
    with open(path, "rb") as fh:
        return hashlib.sha256(fh.read()).hexdigest()


def noop_checks(rec, path):
    """Opening and closing without any mutation changes nothing (digests; bytes for r)."""
    from geoh5py.workspace import Workspace

    for mode in ("r", "r+", "a"):
        d0 = snap.node_digests(snap.raw_snapshot(path))
        b0 = sha(path)
        ws = Workspace(path, mode=mode)
        # getters with lazy loading are not mutations
        _ = [e.name for e in ws.objects + ws.groups + ws.data]
        ws.close()
        d1 = snap.node_digests(snap.raw_snapshot(path))
        changed = sorted(p for p in set(d0) | set(d1) if d0.get(p) != d1.get(p))
        rec.check("C09.noop-changed", not changed, op="open-close", cls=mode, attr="digest", detail=f"mode {mode}: nodes changed by open/close without mutation: {changed[:5]}")
        if mode == "r":
            rec.check("C09.noop-changed", sha(path) == b0, op="open-close", cls=mode, attr="bytes", detail="file bytes changed by a read-only open/close")


def run_case(case, rec):
    rng = random.Random(case["seed"])
    mon = C09Monitor()

    class NoopAtEnd(hist.Monitor):
        def at_close(self, eng, path, live, final):
            if final and case.get("noop"):
                tmp = path + ".noop.geoh5"
                shutil.copy(path, tmp)
                try:
                    noop_checks(eng.rec, tmp)
                finally:
                    os.remove(tmp)

    eng = hist.Engine(rec, rng, PROP, weights=PROFILES[case["profile"]], monitors=[mon, NoopAtEnd()], gc_plan=case["gc"], ref_policy=case["refs"], n_ops=case["n_ops"])
    eng.run()
    rec.shape = [case["profile"], [(o["op"], o.get("cls", "")) for o in eng.log]]
    rec.sample = {"profile": case["profile"], "history": [short({k: v for k, v in o.items() if k != "removed"}, 160) for o in eng.log[:10]]}
    gc.collect()
