"""C09 — an operation on one entity leaves unrelated stored entities untouched.

Per-node digests of the file (plain h5py on the live handle) are taken immediately before and after
every single API mutation of seeded histories; every changed, created or deleted node must lie in
the operation's allowed footprint, which is computed from the reference model (target node, parents
left/joined, nodes created/deleted, types introduced or no longer used, the data's type node for
StatsCache).  Opening and closing without mutation must change nothing (digests and bytes)."""
from __future__ import annotations

import gc
import hashlib
import os
import random
import shutil

from .. import hist, snap
from ..core import short

PROP = "C09"
LEVEL = "exploration"
RULE = (
    "case = one seeded API history; every operation is bracketed by two digest passes over all nodes of the file; "
    "plus no-op open/close cases in modes r, r+, a on files produced by histories. evaluations = histories; "
    "clause evaluations count (operation, node) pairs; non-trivial = >= 5 bracketed mutating ops on a file with >= 4 "
    "nodes; distinct = distinct op-kind/class sequence."
)
ASSUMPTIONS = [
    "allowed footprint is derived from the reference model, not from the library",
    "flat nodes of entities removed through their parent may disappear at any later operation (lazy sweeping)",
]
MUTATING = {"type_rename", "mk_group", "mk_object", "add_data", "set_values", "rename", "flag", "metadata", "move", "move_data", "copy", "remove", "pg_add", "pg_create_empty", "pg_remove_data", "pg_delete", "comment", "add_file", "remove_protected", "remove_refused"}


def floors(tier):
    return {"C09.collateral": 3000, "bracketed-ops": 800, "C09.noop-changed": 60, "op:remove": 30, "op:copy": 30, "op:move": 30, "op:set_values": 30, "drill-ops": 60, "drill-type-cases": 8, "op:dup_uid": 40}


def gen_cases(tier, seed):
    n = 160 if tier == "quick" else 3000
    cases = []
    for i in range(n):
        cases.append({"kind": "history", "profile": ["mixed", "churn", "pg", "refuse", "clip"][i % 5], "n_ops": [10, 14, 20][i % 3] if tier == "quick" else [15, 25, 40][i % 3], "gc": ["default", "every", "seeded", "aggressive"][(i // 3) % 4], "refs": ["strong", "refetch"][(i // 9) % 2], "noop": i % 4 == 0})
    # holes of one drillhole group share their stored arrays: an operation aimed at one hole (first, middle, last) must leave the
    # others' slices and records alone
    for t in range(4):
        for op in DRILL_OPS:
            for version in (2.0, 2.1):
                cases.append({"kind": "drill", "target": t, "op": op, "version": version})
    for version in (2.0, 2.1):
        for read_first in (True, False):
            for same_object in (True, False):
                cases.append({"kind": "drill-types", "version": version, "read_first": read_first, "same_object": same_object})
    return cases


def run_drill_types(case, rec):
    """Removing an unrelated object must not touch the types that stored (possibly not yet loaded) drillhole data refer to,
    also when the workspace object went through close() / open() in between."""
    import tempfile
    import warnings

    import numpy as np
    from geoh5py.groups import DrillholeGroup
    from geoh5py.objects import Drillhole, Points
    from geoh5py.workspace import Workspace

    warnings.simplefilter("ignore")
    d = tempfile.mkdtemp(prefix="gvm_")
    path = os.path.join(d, f"dt_{os.getpid()}.geoh5")
    where = f"drill-types:{'same-object' if case['same_object'] else 'new-object'}:{'read-first' if case['read_first'] else 'lazy'}"
    try:
        ws = Workspace.create(path, version=case["version"])
        if case["version"] == 2.0 or case["read_first"]:
            # another campaign's drillhole group, made first: the project holds more than one
            first = DrillholeGroup.create(ws, name="earlier campaign")
            fh = Drillhole.create(ws, parent=first, name="old hole", collar=[50.0, 50.0, 0.0], surveys=np.array([[0.0, 0.0, -90.0], [20.0, 0.0, -90.0]]))
            fh.add_data({"Sn": {"depth": np.arange(2.0) + 0.5, "values": np.arange(2.0)}}, property_group="old assay")
            del first, fh
            rec.see("projects-with-two-drillhole-groups")
        grp = DrillholeGroup.create(ws, name="DH")
        for i in range(2):
            h = Drillhole.create(ws, parent=grp, name=f"hole{i}", collar=[float(i), 0.0, 0.0], surveys=np.array([[0.0, 0.0, -90.0], [50.0, 0.0, -90.0]]))
            h.add_data({"Au": {"depth": np.arange(3.0) + 0.5, "values": np.arange(3.0) + 10 * i}, "Lith": {"depth": np.arange(3.0) + 0.5, "values": np.array(["a", "b", "c"]), "type": "text"}}, property_group="assay")
        pts = Points.create(ws, vertices=np.zeros((4, 3)), name="scratch")
        pts.add_data({"junk": {"values": np.arange(4.0)}})
        del h, grp, pts
        ws.close()
        dig0 = snap.node_digests(snap.raw_snapshot(path))
        ws = Workspace(path, mode="r+")
        if case["read_first"]:
            for h in ws.get_entity("DH")[0].children:
                for nm in h.get_data_list():
                    _ = h.get_data(nm)[0].values
            h = None
        if case["same_object"]:
            ws.close()
            ws.open()
        else:
            ws.close()
            ws = Workspace(path, mode="r+")
        gc.collect()
        victim = ws.get_entity("scratch")[0]
        kids = {"Objects/{" + str(victim.uid) + "}"} | {"Data/{" + str(c.uid) + "}" for c in victim.children}
        ktypes = {"Types/Data types/{" + str(c.entity_type.uid) + "}" for c in victim.children if hasattr(c, "entity_type")} | {"Types/Object types/{" + str(victim.entity_type.uid) + "}"}
        ws.remove_entity(victim)
        del victim
        gc.collect()
        _ = ws.types, ws.data, ws.objects
        gc.collect()
        ws.close()
        rec.see("bracketed-ops")
        rec.see("drill-type-cases")
        dig1 = snap.node_digests(snap.raw_snapshot(path))
        for p_, dg in dig0.items():
            if p_ in kids or p_ in ktypes or p_ == "<project>":
                continue
            rec.evals["C09.collateral"] += 1
            if p_ not in dig1:
                rec.fail("C09.collateral", op=where, cls=p_.split("/")[0] if not p_.startswith("Types/") else "type", attr="node-deleted", detail=f"removing the scratch points deleted {p_}", counted=True)
            elif dig1[p_]["content"] != dg["content"]:
                rec.fail("C09.collateral", op=where, cls=p_.split("/")[0] if not p_.startswith("Types/") else "type", attr="content", detail=f"removing the scratch points changed {p_}", counted=True)
        with Workspace(path, mode="r") as fresh:
            for h in fresh.get_entity("DH")[0].children:
                for nm, exp in (("Au", 3), ("Lith", 3)):
                    try:
                        v = h.get_data(nm)[0].values
                        ok = v is not None and len(v) == exp
                    except Exception as exc:  # noqa: BLE001
                        ok, v = False, f"<raises {type(exc).__name__}: {exc}>"
                    rec.check("C09.collateral", ok, op=where, cls="ConcatenatedData", attr="unreadable-afterwards", detail=f"{h.name}.{nm} after the unrelated removal: {v}")
        rec.nontrivial = True
        rec.shape = ["drill-types", case["version"], case["read_first"], case["same_object"]]
        rec.sample = {"profile": "drill-types", "where": where}
    finally:
        try:
            ws.close()
        except Exception:  # noqa: BLE001
            pass
        shutil.rmtree(d, ignore_errors=True)
        gc.collect()


DRILL_OPS = ["update", "update-longer", "add-data", "remove-data", "rename-data", "remove-hole", "new-table", "flag", "copy-log-to-other-hole", "add-near-name", "add-same-name-integer", "add-same-name-text"]


def run_drill(case, rec):
    import tempfile
    import uuid
    import warnings

    import h5py
    import numpy as np
    from geoh5py.groups import DrillholeGroup
    from geoh5py.objects import Drillhole
    from geoh5py.workspace import Workspace

    from ..core import exc_origin

    warnings.simplefilter("ignore")
    d = tempfile.mkdtemp(prefix="gvm_")
    path = os.path.join(d, f"dh_{os.getpid()}.geoh5")
    t, op = case["target"], case["op"]
    where = f"drill:{op}:hole{t}"

    def api_view(ws, skip):
        out = {}
        for h in ws.get_entity("DH")[0].children:
            if h.name == skip:
                continue
            for nm in h.get_data_list():
                try:
                    dd = h.get_data(nm)[0]
                    out[(h.name, nm)] = (None if dd.values is None else np.asarray(dd.values, dtype=float).tolist(), str(dd.uid))
                except Exception as exc:  # noqa: BLE001
                    if not exc_origin(exc)[0]:
                        raise
                    out[(h.name, nm)] = (f"<raises {type(exc).__name__}: {str(exc)[:80]}>", "")
        return out

    def raw_view(skip_uid):
        out = {}
        with h5py.File(path, "r") as h5:
            base = h5[list(h5)[0]]
            for g in base["Groups"].values():
                if "Concatenated Data" not in g:
                    continue
                cat = g["Concatenated Data"]
                for label in cat["Index"]:
                    arr = cat["Data"][label][()] if label in cat.get("Data", {}) else (cat[label][()] if label in cat else None)
                    for row in cat["Index"][label][()]:
                        oid = row["Object ID"].decode() if isinstance(row["Object ID"], bytes) else str(row["Object ID"])
                        if oid.strip("{}") == skip_uid or arr is None:
                            continue
                        sl = arr[int(row["Start index"]): int(row["Start index"]) + int(row["Size"])]
                        out[(oid, label)] = [x.decode() if isinstance(x, bytes) else (None if isinstance(x, float) and x != x else (x.item() if hasattr(x, "item") else x)) for x in sl.tolist()] if sl.dtype.kind != "f" else [None if v != v else float(v) for v in sl.tolist()]
        return out

    try:
        ws = Workspace.create(path, version=case["version"])
        grp = DrillholeGroup.create(ws, name="DH")
        for i in range(4):
            h = Drillhole.create(ws, parent=grp, name=f"hole{i}", collar=[float(i), 0.0, 0.0], surveys=np.array([[0.0, 0.0, -90.0], [100.0, 0.0, -90.0]]))
            n = [3, 5, 2, 4][i]
            h.add_data({"Au": {"depth": np.arange(n) + 0.5, "values": np.arange(n) + 100.0 * (i + 1)}, "Cu": {"depth": np.arange(n) + 0.5, "values": np.arange(n) + 1000.0 * (i + 1)}}, property_group="assay")
            h.add_data({"Lith": {"from-to": np.c_[np.arange(2.0) + 10 * i, np.arange(2.0) + 10 * i + 0.5], "values": np.arange(2.0) + 7 * i}}, property_group="lith")
            if i == (t + 1) % 4:  # a log only the neighbour of the target has
                h.add_data({"Mo": {"depth": np.arange(3.0) + 20.5, "values": np.arange(3.0) + 0.25}}, property_group="moly")
        del h, grp
        ws.close()
        ws = Workspace(path, mode="r+")
        target = [c for c in ws.get_entity("DH")[0].children if c.name == f"hole{t}"][0]
        tuid = str(target.uid)
        api0 = api_view(ws, f"hole{t}")
        ws.close()
        raw0 = raw_view(tuid)
        ws = Workspace(path, mode="r+")
        target = ws.get_entity(uuid.UUID(tuid))[0]
        try:
            if op == "update":
                dd = target.get_data("Au")[0]
                dd.values = dd.values * -1.0 - 5.0
            elif op == "update-longer":
                ws.remove_entity(target.get_data("Cu")[0])
                target.add_data({"Cu": {"values": np.arange(len(target.get_data("Au")[0].values)) + 55.0}}, property_group="assay")
            elif op == "add-data":
                target.add_data({"Zn": {"values": np.arange(len(target.get_data("Au")[0].values)) + 9.0}}, property_group="assay")
            elif op == "remove-data":
                ws.remove_entity(target.get_data("Cu")[0])
            elif op == "rename-data":
                target.get_data("Cu")[0].name = "Cu_new"
            elif op == "remove-hole":
                ws.remove_entity(target)
            elif op == "new-table":
                target.add_data({"Mag": {"depth": np.arange(6.0) + 50.5, "values": np.arange(6.0)}}, property_group="mag")
            elif op == "flag":
                target.get_data("Au")[0].public = False
                target.visible = False
            elif op == "add-near-name":
                # a name that differs from the neighbour's log by a blank (or by case) is another name
                near = ["Mo ", " Mo", "mo", "MO"][(t + int(case["version"] * 10)) % 4]
                target.add_data({near: {"depth": np.arange(4.0) + 30.5, "values": np.arange(4.0) - 50.0}}, property_group="near")
            elif op == "add-same-name-integer":
                target.add_data({"Mo": {"depth": np.arange(4.0) + 30.5, "values": np.arange(4, dtype="int32") + 7, "type": "integer"}}, property_group="moly")
            elif op == "add-same-name-text":
                target.add_data({"Mo": {"depth": np.arange(4.0) + 30.5, "values": np.array(["w", "x", "y", "z"]), "type": "text"}}, property_group="moly")
            elif op == "copy-log-to-other-hole":
                # a log of this hole is copied onto a neighbour that has a log of the same name: the neighbour's own log stays
                # what it was (same entity, same values); whatever the copy adds is the copy's
                other = [c for c in ws.get_entity("DH")[0].children if c.name == f"hole{(t + 1) % 4}"][0]
                target.get_data("Au")[0].copy(parent=other)
                other = None
        except Exception as exc:  # noqa: BLE001
            if not exc_origin(exc)[0]:
                raise
            rec.see("drill-op-refused:" + type(exc).__name__)
        del target
        rec.see("bracketed-ops")
        rec.see("drill-ops")
        api1 = api_view(ws, f"hole{t}")
        for key, (vals, uid_) in api0.items():
            got = api1.get(key)
            rec.evals["C09.collateral"] += 1
            if got is None or got[0] != vals or got[1] != uid_:
                rec.fail("C09.collateral", op=where, cls="ConcatenatedData", attr="other-hole-live", detail=f"{key[0]}.{key[1]} read {vals} before the operation on hole{t} and {None if got is None else got[0]} after it", counted=True)
        ws.close()
        raw1 = raw_view(tuid)
        for key, sl in raw0.items():
            rec.evals["C09.collateral"] += 1
            if raw1.get(key) != sl:
                rec.fail("C09.collateral", op=where, cls="Concatenated", attr="other-hole-stored:" + (key[1] if key[1] in ("Surveys", "Trace", "Property Group IDs") else "data"), detail=f"stored slice of ({key[0]}, {key[1]}) was {sl} before the operation on hole{t} and is {raw1.get(key)} after it", counted=True)
        with Workspace(path, mode="r") as fresh:
            api2 = api_view(fresh, f"hole{t}")
        for key, (vals, uid_) in api0.items():
            got = api2.get(key)
            rec.evals["C09.collateral"] += 1
            if got is None or got[0] != vals:
                rec.fail("C09.collateral", op=where, cls="ConcatenatedData", attr="other-hole-reopened", detail=f"{key[0]}.{key[1]} read {vals} before the operation on hole{t}; a fresh reader sees {None if got is None else got[0]}", counted=True)
        rec.nontrivial = True
        rec.shape = ["drill", op, t, case["version"]]
        rec.sample = {"profile": "drill", "op": op, "target": f"hole{t}"}
    finally:
        try:
            ws.close()
        except Exception:  # noqa: BLE001
            pass
        shutil.rmtree(d, ignore_errors=True)
        gc.collect()


PROFILES = {
    "mixed": {"reopen": 0.6, "clip": 1.5, "copy_out": 0.8, "mk_group": 3.0},
    "clip": {"mk_group": 6.0, "mk_object": 5.0, "add_data": 2.0, "clip": 7.0, "move": 1.5, "copy": 0.5, "remove": 0.5, "reopen": 0.5},
    "churn": {"remove": 3.5, "copy": 2.5, "move": 3.0, "rename": 2.0, "reopen": 1.0, "gc": 1.0, "listing": 1.0, "move_data": 1.5},
    "pg": {"add_data": 6.0, "pg_add": 4.0, "pg_remove_data": 2.0, "pg_delete": 1.0, "remove": 3.0, "set_values": 4.0, "flag": 2.0},
    "refuse": {"dup_uid": 5.0, "remove_protected": 2.0, "mk_object": 3.0, "add_data": 3.0, "gc": 2.0, "listing": 2.5, "remove": 1.5, "add_data_fail": 2.0},
}


class C09Monitor(hist.Monitor):
    def __init__(self):
        self.before_raw = None
        self.before_dig = None
        self.bracketed = 0
        self.max_nodes = 0

    def _snap(self, eng):
        try:
            h5 = eng.ws.geoh5
        except Exception:  # noqa: BLE001
            return None, None
        raw = snap.raw_snapshot(h5)
        return raw, snap.node_digests(raw)

    def before(self, eng, op):
        self.before_raw, self.before_dig = self._snap(eng)

    def after(self, eng, op, ok):
        if self.before_dig is None:
            return
        raw1, d1 = self._snap(eng)
        if d1 is None:
            return
        rec = eng.rec
        d0, raw0 = self.before_dig, self.before_raw
        fp = eng.last_footprint
        kind = op["op"]
        if kind in MUTATING and not op.get("refused"):
            self.bracketed += 1
            rec.see("bracketed-ops")
        self.max_nodes = max(self.max_nodes, len(d1))
        pending = set(eng.pending_victims) | set(eng.parent_removed)
        created = set(d1) - set(d0)
        deleted = set(d0) - set(d1)
        # types referenced by the nodes the op may touch
        allowed_types = set()
        for p in set(fp["content"]) | set(fp["delete"]):
            for raw in (raw0, raw1):
                t = (raw["nodes"].get(p) or {}).get("type") or {}
                if t.get("id"):
                    for tk in ("Data types", "Group types", "Object types"):
                        allowed_types.add(f"Types/{tk}/{t['id']}")
        for tu in fp.get("types", ()):
            for tk in ("Data types", "Group types", "Object types"):
                allowed_types.add(f"Types/{tk}/{{{tu}}}")
        cls = op.get("cls", "")
        for p in sorted(created):
            rec.evals["C09.collateral"] += 1
            if p.startswith("Types/"):
                if not fp["any_type"]:
                    rec.fail("C09.collateral", op=kind, cls=cls, attr="type-created", detail=f"{kind} created type node {p}", counted=True)
            elif not fp["create"]:
                rec.fail("C09.collateral", op=kind, cls=cls, attr="node-created:" + p.split("/")[0], detail=f"{kind} ({short(op, 200)}) created {p}", counted=True)
        for p in sorted(deleted):
            rec.evals["C09.collateral"] += 1
            if p.startswith("Types/"):
                # a type may go once nothing that is still part of the project uses it (deferred sweep of an
                # earlier removal); deleting a type that a surviving entity links to is collateral damage
                tid = p.rsplit("/", 1)[1].lower()
                users = [q for q, r in raw1["nodes"].items() if q not in pending and str(((r.get("type") or {}).get("id")) or "").lower() == tid]
                if users:
                    rec.fail("C09.collateral", op=kind, cls=cls, attr="type-deleted-in-use", detail=f"{kind} deleted type node {p} still used by {users[:3]}", counted=True)
            elif p not in fp["delete"] and p not in pending:
                rec.fail("C09.collateral", op=kind, cls=cls, attr="node-deleted:" + p.split("/")[0], detail=f"{kind} ({short(op, 200)}) deleted {p}, which is not a victim of this or an earlier removal", counted=True)
        for p in sorted(set(d0) & set(d1)):
            rec.evals["C09.collateral"] += 1
            a, b = d0[p], d1[p]
            if a["content"] != b["content"]:
                ok_c = p in fp["content"] or p in allowed_types or p in pending
                if p == "<project>":
                    ok_c = False
                if not ok_c and p.startswith("Types/"):
                    # a type node that no stored entity used before the op (left behind by earlier removals) is nobody's:
                    # the entity that now takes the identifier over may bring its own attributes
                    tid = p.rsplit("/", 1)[1].lower()
                    users0 = [q for q, r in raw0["nodes"].items() if q not in pending and str(((r.get("type") or {}).get("id")) or "").lower() == tid]
                    if not users0:
                        ok_c = True
                        rec.see("unused-type-node-taken-over")
                if not ok_c:
                    what = _what_changed(raw0, raw1, p)
                    rec.fail("C09.collateral", op=kind, cls=cls, attr="content:" + _nk(p), detail=f"{kind} ({short(op, 200)}) changed attributes/datasets of {p}: {what}", counted=True)
            if a["links"] != b["links"]:
                ok_l = p in fp["links"] or p in pending or p in fp["content"] and kind in ("copy",)
                if p == "<project>":
                    ok_l = bool(created or deleted)
                if not ok_l:
                    rec.fail("C09.collateral", op=kind, cls=cls, attr="links:" + _nk(p), detail=f"{kind} ({short(op, 200)}) changed the child list of {p}", counted=True)
        if self.bracketed >= 5 and self.max_nodes >= 4:
            rec.nontrivial = True


def _nk(p):
    return "project" if p == "<project>" else ("type" if p.startswith("Types/") else p.split("/")[0])


def _what_changed(raw0, raw1, p):
    if p == "<project>":
        return short({"before": raw0.get("attrs"), "after": raw1.get("attrs")}, 300)
    if p.startswith("Types/"):
        a, b = raw0["types"].get(p[6:]), raw1["types"].get(p[6:])
    else:
        a, b = raw0["nodes"].get(p), raw1["nodes"].get(p)
    from ..core import diff_paths

    return short([(x[0], x[1], x[2]) for x in diff_paths({k: v for k, v in (a or {}).items() if k not in ("addr", "rc", "children")}, {k: v for k, v in (b or {}).items() if k not in ("addr", "rc", "children")}, limit=3)], 400)


def sha(path):
    with open(path, "rb") as fh:
        return hashlib.sha256(fh.read()).hexdigest()


def noop_checks(rec, path):
    """Opening and closing without any mutation changes nothing (digests; bytes for r)."""
    from geoh5py.workspace import Workspace

    for mode in ("r", "r+", "a"):
        d0 = snap.node_digests(snap.raw_snapshot(path))
        b0 = sha(path)
        ws = Workspace(path, mode=mode)
        # getters with lazy loading are not mutations
        _ = [e.name for e in ws.objects + ws.groups + ws.data]
        ws.close()
        d1 = snap.node_digests(snap.raw_snapshot(path))
        changed = sorted(p for p in set(d0) | set(d1) if d0.get(p) != d1.get(p))
        rec.check("C09.noop-changed", not changed, op="open-close", cls=mode, attr="digest", detail=f"mode {mode}: nodes changed by open/close without mutation: {changed[:5]}")
        if mode == "r":
            rec.check("C09.noop-changed", sha(path) == b0, op="open-close", cls=mode, attr="bytes", detail="file bytes changed by a read-only open/close")


def run_case(case, rec):
    if case["kind"] == "drill":
        return run_drill(case, rec)
    if case["kind"] == "drill-types":
        return run_drill_types(case, rec)
    rng = random.Random(case["seed"])
    mon = C09Monitor()

    class NoopAtEnd(hist.Monitor):
        def at_close(self, eng, path, live, final):
            if final and case.get("noop"):
                tmp = path + ".noop.geoh5"
                shutil.copy(path, tmp)
                try:
                    noop_checks(eng.rec, tmp)
                finally:
                    os.remove(tmp)

    eng = hist.Engine(rec, rng, PROP, weights=PROFILES[case["profile"]], monitors=[mon, NoopAtEnd()], gc_plan=case["gc"], ref_policy=case["refs"], n_ops=case["n_ops"], second_ws=case["profile"] in ("mixed", "clip"))
    eng.run()
    rec.shape = [case["profile"], [(o["op"], o.get("cls", "")) for o in eng.log]]
    rec.sample = {"profile": case["profile"], "history": [short({k: v for k, v in o.items() if k != "removed"}, 160) for o in eng.log[:10]]}
    gc.collect()
