"""C01 — re-opening a file yields exactly the state built through the API.

Seeded API histories under (gc plan x reference policy) schedules; at every close the public view
of the live workspace (taken just before close), the public view of a *fresh* read-only Workspace
on the closed file and the reference TreeModel must agree; the raw flat containers must hold
exactly the model's entities."""
from __future__ import annotations

import gc
import random

from .. import hist, snap
from ..core import short

PROP = "C01"
LEVEL = "exploration"
RULE = (
    "case = one seeded history of 8-60 public API operations (create group/object of every basic class, add data "
    "of every kind, assign values, rename, flags, metadata, move, copy, remove through workspace or parent, property "
    "group add/remove/delete, comments, files, intermediate close/re-open, gc points, listings) run under one "
    "(gc plan, reference policy) schedule; non-trivial = reached a close with >= 3 entities and >= 1 mutating op; "
    "distinct = distinct (op-kind sequence, classes, schedule) shape, values and uids excluded."
)
ASSUMPTIONS = [
    "model asserts only what the user's calls determine (existence, parent, name, flags, assigned values, metadata keys, group membership); everything else is compared differentially live vs re-opened",
    "process kills are out of scope; names within one parent are unique by construction",
]
GC_PLANS = ["default", "off", "every", "seeded", "aggressive"]
REF_POLICIES = ["strong", "refetch", "drop"]


def floors(tier):
    return {"closes": 100, "reopens": 30, "C01.live-vs-reopen": 500, "C01.model": 500, "op:remove": 30, "op:copy": 30, "op:move": 30}


def gen_cases(tier, seed):
    n = 320 if tier == "quick" else 6000
    cases = []
    for i in range(n):
        cases.append(
            {
                "kind": "history",
                "gc": GC_PLANS[i % len(GC_PLANS)],
                "refs": REF_POLICIES[(i // 4) % 3],
                "n_ops": [8, 12, 18, 25][i % 4] if tier == "quick" else [10, 20, 35, 60][i % 4],
                "profile": ["mixed", "churn", "deep", "pg", "clip"][(i // 12) % 5],
                "in_memory": i % 9 == 0,
            }
        )
    cases += [{"kind": "grid-clip", "profile": "grid-clip"} for _ in range(12 if tier == "quick" else 120)]
    return cases


PROFILES = {
    "mixed": {"dup_uid": 0.8, "add_data_fail": 0.6, "mk_deferred": 1.0, "clip": 1.0, "set_parts": 0.8},
    "churn": {"dup_uid": 1.0, "mk_deferred": 1.0, "clip": 1.5, "mk_object": 2.0, "remove": 4.0, "copy": 3.0, "move": 3.0, "rename": 2.0, "reopen": 2.0, "gc": 1.5, "listing": 1.5},
    "deep": {"mk_group": 5.0, "move": 4.0, "copy": 2.5, "mk_object": 2.0},
    "clip": {"mk_object": 4.0, "add_data": 6.0, "clip": 6.0, "set_parts": 2.5, "set_values": 1.0, "reopen": 1.5, "remove": 1.0, "mk_group": 1.5, "move": 1.0},
    "pg": {"add_data": 6.0, "pg_add": 4.0, "pg_add_second": 4.0, "pg_remove_data": 2.0, "pg_delete": 1.0, "remove": 3.0, "copy": 2.0},
}


class C01Monitor(hist.Monitor):
    wants_live = True

    def at_close(self, eng, path, live, final):
        from geoh5py.workspace import Workspace

        rec = eng.rec
        tainted = set()
        if live is None:
            rec.see("closes-without-a-look-at-the-live-session")
        for uid, attr, exc in (getattr(eng, "live_errors", []) if live is not None else []):
            rec.fail("C01.live-getter-raises", op="snapshot", cls=live.get(uid, {}).get("cls", ""), attr=attr, detail=f"{uid}.{attr}: {type(exc).__name__}: {exc}")
        fresh = Workspace(path, mode="r")
        try:
            errors = []
            reopened = snap.api_snapshot(fresh, errors=errors)
            for uid, attr, exc in errors:
                rec.fail("C01.reopen-getter-raises", op="snapshot", cls=reopened.get(uid, {}).get("cls", ""), attr=attr, detail=f"{uid}.{attr}: {type(exc).__name__}: {exc}")
        finally:
            fresh.close()
        if live is not None:
            hist.diff_snapshots(rec, PROP, "C01.live-vs-reopen", live, reopened, "close", tainted=tainted)
            hist.compare_model(rec, PROP, eng.model, live, "live", tainted=tainted)
        hist.compare_model(rec, PROP, eng.model, reopened, "reopened", tainted=tainted)
        # raw flat containers vs the model (independent reader)
        raw = snap.raw_snapshot(path)
        want = {hist.path_of(n) for n in eng.model.nodes.values()}
        have = {p for p in raw["nodes"]}
        rec.evals["C01.file-entities"] += 1
        for p in sorted(want - have):
            rec.fail("C01.file-missing", op="close", cls=p.split("/")[0], detail=f"{p} is in the model but not in the flat container", counted=True)
        for p in sorted(have - want - eng.parent_removed):
            rec.fail("C01.file-extra", op="close", cls=p.split("/")[0], detail=f"{p} is in the flat container but the API history removed it or never created it (it can be resurrected by uid reuse)", counted=True)
        if len(live if live is not None else reopened) >= 3 and len(eng.log) >= 1:
            rec.nontrivial = True


def run_grid_clip(case, rec):
    """Scripted: a rotated 2-D grid with cell data of several kinds is clipped by an axis-aligned box that cuts through it (the
    copy keeps a block of rows and columns, the cells of that block that lie outside the box are blanked); what the session
    shows of source and copy before the close is what a later reader gets."""
    import os
    import shutil
    import tempfile

    import numpy as np
    from geoh5py.objects import Grid2D
    from geoh5py.workspace import Workspace

    rng = random.Random(case["seed"])
    d = tempfile.mkdtemp(prefix="gvm_c01g_")
    path = os.path.join(d, "g.geoh5")
    ws = None
    try:
        ws = Workspace.create(path)
        nu, nv = rng.randint(4, 7), rng.randint(4, 7)
        grid = Grid2D.create(ws, origin=[0.0, 0.0, 0.0], u_cell_size=1.0, v_cell_size=1.0, u_count=nu, v_count=nv, rotation=rng.choice([30.0, 45.0, 60.0, -30.0]), name="rotated")
        n = nu * nv
        grid.add_data({"f": {"values": np.arange(n, dtype=float) + 0.5},
                       "i": {"values": np.arange(n, dtype="int32") + 1, "type": "integer"},
                       "r": {"values": (np.arange(n) % 3 + 1).astype("int32"), "type": "referenced", "value_map": {1: "a", 2: "b", 3: "c"}}})
        if case["seed"] % 2:
            ws.close()
            ws = Workspace(path, mode="r+")
            grid = ws.get_entity("rotated")[0]
            rec.see("grid-clips:source-reloaded")
        cent = np.asarray(grid.centroids)
        lo, hi = cent[:, :2].min(axis=0), cent[:, :2].max(axis=0)
        mid = (lo + hi) / 2.0
        box = np.array([[lo[0] - 1.0, mid[1] - 0.25 * (hi[1] - lo[1])], [mid[0] + 0.1 * (hi[0] - lo[0]), hi[1] + 1.0]])
        new = grid.copy_from_extent(box, inverse=bool(case["seed"] % 3 == 0))
        rec.see("grid-clips")
        if new is None:
            rec.see("grid-clips:none")
            rec.nontrivial = True
            rec.shape = ["grid-clip", "none"]
            return
        blanked = sum(int(np.isnan(np.asarray(c.values, dtype=float)).any()) for c in new.children if getattr(c, "values", None) is not None and c.name == "f")
        rec.see("grid-clips:with-blanked-cells" if blanked else "grid-clips:nothing-blanked")
        live = snap.api_snapshot(ws)
        new = grid = None
        ws.close()
        fresh = Workspace(path, mode="r")
        try:
            reopened = snap.api_snapshot(fresh)
        finally:
            fresh.close()
        hist.diff_snapshots(rec, PROP, "C01.live-vs-reopen", live, reopened, "close")
        rec.see("closes-validated")
        rec.nontrivial = True
        rec.shape = ["grid-clip", nu, nv, bool(blanked)]
        rec.sample = {"lane": "grid-clip", "cells": n, "blanked": bool(blanked)}
    finally:
        try:
            if ws is not None:
                ws.close()
        except Exception:  # noqa: BLE001
            pass
        shutil.rmtree(d, ignore_errors=True)
        gc.collect()


def run_case(case, rec):
    if case.get("kind") == "grid-clip":
        return run_grid_clip(case, rec)
    rng = random.Random(case["seed"])
    eng = hist.Engine(
        rec,
        rng,
        PROP,
        weights=PROFILES[case["profile"]],
        monitors=[C01Monitor()],
        gc_plan=case["gc"],
        ref_policy=case["refs"],
        n_ops=case["n_ops"],
        in_memory_start=case.get("in_memory", False),
        classes=["Grid2D", "Grid2D", "Curve", "Points", "BlockModel", "Surface", "Octree"] if case["profile"] == "clip" else None,
    )
    eng.unobserved_closes = 0.35  # a third of the closes happen without the monitors having read anything from the session (a getter may repair what a setter left)
    eng.run()
    rec.shape = [case["gc"], case["refs"], case["profile"], [(o["op"], o.get("cls", "")) for o in eng.log]]
    rec.sample = {"schedule": [case["gc"], case["refs"]], "history": [short({k: v for k, v in o.items() if k not in ("removed",)}, 200) for o in eng.log[:12]]}
    gc.collect()
