"""C14 — ui.json files round-trip.

Random subsets of all template forms with arbitrary member combinations (optional / enabled /
group / groupOptional / dependency) and values from each form's domain are assembled against a
workspace holding the referenced entities; `InputFile.data` and the enabled states before
`write_ui_json` must equal those after `read_ui_json`, the text on disk must be strict JSON, and
promote(demote(x)) must be the identity on identifiers.  A second write/read after value edits
(numbers, None for optional parameters, data <-> value switches) is compared the same way."""
from __future__ import annotations

import gc
import json
import os
import random
import shutil
import tempfile
import uuid
import warnings
from copy import deepcopy

import numpy as np

from ..core import canon, exc_origin, short

PROP = "C14"
LEVEL = "exploration"
RULE = (
    "case = one ui.json dictionary of 3-12 forms drawn from all template functions with seeded member combinations and "
    "values (incl. +-inf, extreme numbers, empty strings on optional forms, lists, None for disabled parameters, entity "
    "and workspace references), written, read, edited, written and read again. Non-trivial = >= 3 forms of >= 2 kinds; "
    "distinct = sorted (form kind, member switches, value class) tuple."
)
ASSUMPTIONS = [
    "NaN is excluded (documented); strings that name files ending in .geoh5 are not used as plain string values",
    "entities are compared by uid, workspaces by file path",
    "a dictionary rejected at construction is counted as 'rejected-at-ingestion' (C15's subject), not judged here",
]
FORMS = ["bool", "integer", "float", "string", "choice", "multichoice", "file", "object", "multiobject", "data", "data_value", "group", "dh_data", "range"]


def floors(tier):
    f = {"files-written": 250, "C14.value": 2500, "C14.enabled": 1500, "C14.json": 300, "C14.promotion": 300, "disabled-parameters": 100, "promoted-identifiers": 200, "second-round-trips": 150}
    for k in FORMS:
        f["form:" + k] = 25
    return f


def gen_cases(tier, seed):
    n = 480 if tier == "quick" else 8000
    switches = [{"kind": "group-switch", "direction": dr, "dependency": dep, "entry": en} for dr in ("on", "off") for dep in (None, "on", "off") for en in ("set_data_value", "data")]
    return switches + [{"kind": "uijson", "n_forms": 3, "first": "string", "empty": True} for _ in range(4)] + [{"kind": "uijson", "n_forms": 3 + i % 10, "first": FORMS[i % len(FORMS)]} for i in range(n)]


def strict_loads(text):
    def bad(tok):
        raise ValueError(f"non-JSON constant {tok}")

    return json.loads(text, parse_constant=bad)


def val_key(v):
    """Comparable form of a parameter value: entities by uid, workspaces by path."""
    from geoh5py.workspace import Workspace

    if isinstance(v, Workspace):
        return "ws:" + os.path.realpath(str(v.h5file))
    if isinstance(v, (list, tuple)):
        return [val_key(x) for x in v]
    if hasattr(v, "uid"):
        return "uid:" + str(v.uid)
    if isinstance(v, uuid.UUID):
        return "uid:" + str(v)
    if isinstance(v, float) and v != v:
        return "NaN"
    if isinstance(v, (np.floating, np.integer)):
        return v.item()
    return v


def build_scene(d, rng):
    from geoh5py.groups import ContainerGroup, DrillholeGroup
    from geoh5py.objects import Curve, Points
    from geoh5py.workspace import Workspace

    path = os.path.join(d, rng.choice(["scene.geoh5", "scene.v2.geoh5", "my scene é.geoh5", "temp1712.345.geoh5", "UPPER-case_1.geoh5"]))
    ws = Workspace.create(path)
    # names are free text: empty, "0", "None" are names like any other
    odd = rng.choice([None, None, "", "0", "None"])
    grp = ContainerGroup.create(ws, name="grp" if odd is None else odd)
    dh = DrillholeGroup.create(ws, name="dh", parent=grp)
    a = Points.create(ws, vertices=np.arange(18, dtype=float).reshape(6, 3), parent=grp, name="A" if odd is None else odd)
    da = a.add_data({"a1": {"values": np.arange(6.0)}, "a2": {"values": np.arange(6.0) * 2}})
    if odd is not None:
        da[1].name = odd
    pga = a.add_data_to_group(da, "pgA")
    b = Curve.create(ws, vertices=np.arange(12, dtype=float).reshape(4, 3), name="B")
    db = b.add_data({"b1": {"values": np.arange(4.0)}})
    ids = {"grp": grp.uid, "dh": dh.uid, "A": a.uid, "B": b.uid, "a1": da[0].uid, "a2": da[1].uid, "b1": db.uid, "pgA": pga.uid}
    return ws, path, ids


def make_form(kind, rng, ids, name, ui, rec):
    """One form from the template functions; returns (form, shape descriptor)."""
    from geoh5py.ui_json import templates

    opt = rng.choice([None, None, "enabled", "disabled"])
    desc = [kind, opt]
    if kind == "bool":
        form = templates.bool_parameter(value=rng.random() < 0.5, label=name)
        opt = None
        desc = [kind, None]
    elif kind == "integer":
        form = templates.integer_parameter(value=rng.choice([0, 1, -5, 2**31, 10**12, 7]), optional=opt, label=name)
    elif kind == "float":
        v = rng.choice([0.0, 1.5, -2.25, 1e-300, 1e300, float("inf"), float("-inf"), 3.0])
        form = templates.float_parameter(value=v, optional=opt, label=name)
        desc.append("inf" if v in (float("inf"), float("-inf")) else "finite")
    elif kind == "string":
        v = rng.choice(["data", "plain text é", "1.5", "[in-memory]", "a,b;c", "Option Z", "{not a uuid}"])
        if opt is not None and rng.random() < 0.3:
            v = ""
        form = templates.string_parameter(value=v, optional=opt, label=name)
        desc.append("empty" if v == "" else "text")
    elif kind == "choice":
        choices = ("Option A", "Option B", "é option")
        form = templates.choice_string_parameter(choice_list=choices, value=rng.choice(choices), optional=opt, label=name)
    elif kind == "multichoice":
        choices = ("Option A", "Option B", "Option C")
        form = templates.choice_string_parameter(choice_list=choices, multi_select=True, value=rng.sample(choices, rng.randint(1, 3)), optional=opt, label=name)
    elif kind == "file":
        form = templates.file_parameter(file_type=("txt", "csv"), file_description=("text", "table"), value=rng.choice(["", "/some/dir/in.txt", "rel/in.csv;other.csv"]), optional=opt, label=name)
    elif kind == "object":
        form = templates.object_parameter(value=str(ids[rng.choice(["A", "B"])]) if rng.random() < 0.8 or opt is None else None, optional=opt, label=name)
    elif kind == "multiobject":
        form = templates.object_parameter(multi_select=True, value=[str(ids["A"]), str(ids["B"])][: rng.randint(1, 2)], optional=opt, label=name)
    elif kind in ("data", "data_value", "range"):
        # needs a parent object form
        pname = name + "_parent"
        pkey = rng.choice(["A", "B"])
        ui[pname] = templates.object_parameter(value=str(ids[pkey]), label=pname)
        child = {"A": rng.choice(["a1", "a2"]), "B": "b1"}[pkey]
        if kind == "data" and pkey == "A" and rng.random() < 0.4:
            # the form selects a property group of the parent object
            form = templates.data_parameter(parent=pname, data_group_type="Multi-element", value=str(ids["pgA"]), optional=opt, label=name)
            desc.append("property-group")
            rec.see("property-group-forms")
        elif kind == "data":
            form = templates.data_parameter(parent=pname, value=str(ids[child]), optional=opt, label=name)
        elif kind == "data_value":
            if rng.random() < 0.5:
                form = templates.data_value_parameter(parent=pname, value=rng.choice([0.0, 2.5, -1.0]), is_value=True, optional=opt, label=name)
                desc.append("value")
            else:
                form = templates.data_value_parameter(parent=pname, is_value=False, prop=str(ids[child]), optional=opt, label=name)
                desc.append("property")
        else:
            form = templates.range_label_template(parent=pname, property_=str(ids[child]), value=[rng.choice([0.0, 0.2]), rng.choice([0.8, 5.0])], is_complement=rng.random() < 0.5, optional=opt, label=name)
    elif kind == "group":
        form = templates.group_parameter(value=str(ids["grp"]), optional=opt, label=name)
    elif kind == "dh_data":
        form = templates.drillhole_group_data(group_value=str(ids["dh"]), value=rng.choice([["Au", "Cu"], ["x"], []]), optional=opt, label=name)
    else:
        raise KeyError(kind)
    # switches: group / groupOptional / dependency
    sw = []
    if rng.random() < 0.25:
        form["group"] = rng.choice(["G1", "G2"])
        sw.append("group")
    if rng.random() < 0.2 and kind != "bool":
        flag = name + "_flag"
        ui[flag] = templates.bool_parameter(value=rng.random() < 0.5, label=flag)
        form["dependency"] = flag
        form["dependencyType"] = rng.choice(["enabled", "disabled"])
        sw.append("dependency:" + form["dependencyType"])
    return form, desc + sw


def snapshot(in_file):
    data = in_file.data
    vals = {k: val_key(v) for k, v in data.items()}
    enabled = {k: f.get("enabled") for k, f in in_file.ui_json.items() if isinstance(f, dict) and "enabled" in f}
    is_value = {k: f.get("isValue") for k, f in in_file.ui_json.items() if isinstance(f, dict) and "isValue" in f}
    return vals, enabled, is_value


def compare(rec, before, after, where, kinds, raw_empty=()):
    v0, e0, i0 = before
    v1, e1, i1 = after
    for k in sorted(set(v0) | set(v1)):
        kind = kinds.get(k, "core")
        a, b = v0.get(k, "<absent>"), v1.get(k, "<absent>")
        rec.check("C14.value", a == b, op=where, cls=kind, attr="empty-string" if (a == "" or k in raw_empty) else "", detail=f"parameter {k!r} ({kind}): {short(canon(a))} before writing, {short(canon(b))} after reading")
    for k in sorted(set(e0) | set(e1)):
        kind = kinds.get(k, "core")
        rec.check("C14.enabled", e0.get(k) == e1.get(k), op=where, cls=kind, attr="empty-string" if (v0.get(k) == "" or k in raw_empty) else "", detail=f"parameter {k!r} ({kind}): enabled {e0.get(k)} before, {e1.get(k)} after")
    for k in sorted(set(i0) | set(i1)):
        rec.check("C14.enabled", i0.get(k) == i1.get(k), op=where, cls="data_value", attr="isValue", detail=f"parameter {k!r}: isValue {i0.get(k)} before, {i1.get(k)} after")


def run_group_switch(case, rec):
    """A group whose switch is itself an optional parameter, with plain (non-optional) members, one of them also hanging on a
    check box.  The file is written the way the application writes a collapsed / expanded group; then the group is switched
    through the data interface, written and read: every member follows the switch, values included."""
    from geoh5py.ui_json import templates
    from geoh5py.ui_json.constants import default_ui_json
    from geoh5py.ui_json.input_file import InputFile
    from geoh5py.workspace import Workspace

    d = tempfile.mkdtemp(prefix="gvm_")
    turn_on = case["direction"] == "on"
    where = f"group-switch:{case['direction']}:dep-{case['dependency']}:{case['entry']}"
    try:
        Workspace.create(os.path.join(d, "g.geoh5")).close()
        ui = deepcopy(default_ui_json)
        ui["title"] = "group switch"
        ui["geoh5"] = os.path.join(d, "g.geoh5")
        start = not turn_on
        ui["switch"] = dict(templates.float_parameter(value=1.5, label="switch", optional="enabled" if start else "disabled"), group="G", groupOptional=True)
        ui["lower"] = dict(templates.float_parameter(value=2.5, label="lower"), group="G", enabled=start)
        ui["upper"] = dict(templates.integer_parameter(value=7, label="upper"), group="G", enabled=start)
        if case["dependency"]:
            ui["box"] = templates.bool_parameter(value=case["dependency"] == "on", label="box")
            ui["upper"].update(dependency="box", dependencyType="enabled")
            if case["dependency"] == "off":
                ui["upper"]["enabled"] = False
        try:
            in_file = InputFile(ui_json=deepcopy(ui))
            d0 = dict(in_file.data)
        except Exception as exc:  # noqa: BLE001
            if not exc_origin(exc)[0]:
                raise
            rec.fail("C14.value", op=where, cls="group", attr="ingest:" + type(exc).__name__, detail=f"a file with a {'collapsed' if not start else 'expanded'} optional group (members enabled={start}) is refused: {type(exc).__name__}: {short(str(exc), 160)}")
            return
        rec.see("group-switch-files")
        exp0 = {"switch": 1.5 if start else None, "lower": 2.5 if start else None, "upper": (7 if case["dependency"] != "off" else None) if start else None}
        for k, v in exp0.items():
            rec.check("C14.value", d0.get(k) == v, op=where + ":loaded", cls="group", attr=k, detail=f"{k} loaded as {d0.get(k)!r}, the file says {v!r} (group {'on' if start else 'off'})")
        new = {"switch": 4.25, "lower": 8.5, "upper": 3} if turn_on else {"switch": None}
        try:
            if case["entry"] == "data":
                dd = dict(in_file.data)
                dd.update(new)
                in_file.data = dd
            else:
                for k, v in new.items():
                    in_file.set_data_value(k, v)
        except Exception as exc:  # noqa: BLE001
            if not exc_origin(exc)[0]:
                raise
            rec.see("group-switch-edit-refused:" + type(exc).__name__)
            rec.nontrivial = True
            rec.shape = ["group-switch", case["direction"], case["dependency"], case["entry"], "refused"]
            return
        b = snapshot(in_file)
        out = in_file.write_ui_json(name="switch.ui.json", path=d)
        try:
            again = InputFile.read_ui_json(out)
            a = snapshot(again)
        except Exception as exc:  # noqa: BLE001
            if not exc_origin(exc)[0]:
                raise
            rec.fail("C14.value", op=where + ":read", cls="group", attr=type(exc).__name__, detail=f"the file written after switching the group {'on' if turn_on else 'off'} cannot be read back: {type(exc).__name__}: {short(str(exc), 160)}")
            return
        compare(rec, b, a, where, {"switch": "group", "lower": "group", "upper": "group", "box": "bool"})
        if turn_on:
            for k in ("switch", "lower") + (("upper",) if case["dependency"] != "off" else ()):
                rec.check("C14.value", a[0].get(k) == new[k], op=where + ":read", cls="group", attr=k, detail=f"{k} was given {new[k]!r} while switching the group on; read back {a[0].get(k)!r}")
        else:
            for k in ("switch", "lower", "upper"):
                rec.check("C14.value", a[0].get(k) is None, op=where + ":read", cls="group", attr=k, detail=f"group switched off: {k} read back {a[0].get(k)!r}")
        rec.nontrivial = True
        rec.shape = ["group-switch", case["direction"], case["dependency"], case["entry"]]
        rec.sample = {"kind": "group-switch", "direction": case["direction"]}
    finally:
        shutil.rmtree(d, ignore_errors=True)
        gc.collect()


def run_case(case, rec):
    from geoh5py.ui_json.constants import default_ui_json
    from geoh5py.ui_json.input_file import InputFile

    if case["kind"] == "group-switch":
        return run_group_switch(case, rec)

    warnings.simplefilter("ignore")
    rng = random.Random(case["seed"])
    d = tempfile.mkdtemp(prefix="gvm_")
    cwd_before = set(os.listdir("."))
    try:
        ws, path, ids = build_scene(d, rng)
        ui = deepcopy(default_ui_json)
        ui["title"] = "verif ui"
        ui["geoh5"] = ws if rng.random() < 0.5 else path
        kinds, shape = {}, []
        order = [case["first"]] + [rng.choice(FORMS) for _ in range(case["n_forms"] - 1)]
        if case.get("empty"):
            order = ["string", "file", "float"]
        for i, kind in enumerate(order):
            name = f"p{i}_{kind}"
            form, desc = make_form(kind, rng, ids, name, ui, rec)
            if case.get("empty") and kind in ("string", "file"):
                form = {k2: v2 for k2, v2 in form.items() if k2 not in ("group", "dependency", "dependencyType")}
                form.update({"value": "", "optional": True, "enabled": True})
                desc = [kind, "enabled", "empty"]
            ui[name] = form
            kinds[name] = kind
            shape.append(desc)
            rec.see("form:" + kind)
        # a parameter switched off by its dependency is written with enabled = False
        for k, f in ui.items():
            if isinstance(f, dict) and "dependency" in f:
                flag = bool(ui[f["dependency"]]["value"])
                on = flag if f.get("dependencyType", "enabled") == "enabled" else not flag
                if not on and (f.get("optional") or rng.random() < 0.5):
                    f["enabled"] = False
                    f.setdefault("optional", True)
                elif not on:
                    rec.see("inactive-dependency-left-enabled")  # a dependent form that is not optional keeps 'enabled': true in the file
                rec.see("dependency:" + ("on" if on else "off"))
        # groupOptional: one member per group carries the switch; a disabled group is written the way the
        # application writes it, i.e. every member of the group carries enabled = False
        for gname in ("G1", "G2"):
            members = [k for k, f in ui.items() if isinstance(f, dict) and f.get("group") == gname]
            if members and rng.random() < 0.6:
                state = rng.random() < 0.6
                first = ui[members[0]]
                # the switch member cannot be on while its own dependency switches it off, or while it holds no value
                if (first.get("enabled") is False and "dependency" in first) or first.get("value") is None:
                    state = False
                first["groupOptional"] = True
                first["enabled"] = state
                if not state:
                    for m in members:
                        ui[m]["enabled"] = False
                rec.see("group-optional:" + ("on" if state else "off"))
        raw_empty = {k for k, f in ui.items() if isinstance(f, dict) and f.get("value") == ""}  # before ingestion
        # the known empty-string mechanism switches its parameter off; when that parameter is the switch of an optional
        # group or the target of a dependency, the members / dependents follow it: same mechanism, same label
        for _ in range(3):
            for k, f in ui.items():
                if not isinstance(f, dict) or k in raw_empty:
                    continue
                grp = f.get("group")
                switch = [m for m, g in ui.items() if isinstance(g, dict) and grp and g.get("group") == grp and g.get("groupOptional")]
                if (switch and switch[0] in raw_empty) or f.get("dependency") in raw_empty:
                    raw_empty = raw_empty | {k}
        def given(f):
            member = "property" if f.get("isValue") is False else "value"
            return f.get(member) not in (None, "", [])

        raw_given = {k for k, f in ui.items() if isinstance(f, dict) and given(f)}
        try:
            in_file = InputFile(ui_json=ui)
            before = snapshot(in_file)
        except Exception as exc:  # noqa: BLE001
            if not exc_origin(exc)[0]:
                raise
            rec.see("rejected-at-ingestion")
            rec.see("rejected:" + type(exc).__name__)
            if type(exc).__name__ == "OptionalValidationError":
                # "cannot be None": legitimate for a form that holds no value; a form that was given one (an identifier of an
                # entity of this workspace, a number, a text) has lost it on the way in
                lost = sorted(k for k in raw_given if f"'{k}'" in str(exc) or str(exc).rstrip(".").endswith(k))
                rec.check("C14.value", not lost, op="ingest", cls=kinds.get(lost[0], "?") if lost else "", attr="value-lost-at-ingestion", detail=f"{lost}: given a value in the dictionary, refused as None at construction: {exc}")
            rec.shape = ["rejected", shape]
            if case.get("empty"):
                # the empty string is a value of the string / file form's domain (it is the file template's default)
                rec.fail("C14.value", op="ingest", cls="string", attr="empty-string", detail=f"a dictionary whose enabled string/file forms hold the empty string is refused at construction: {type(exc).__name__}: {exc}")
            return
        rec.see("disabled-parameters", sum(1 for v in before[1].values() if v is False))
        rec.see("promoted-identifiers", sum(1 for v in before[0].values() if isinstance(v, str) and v.startswith("uid:")) + sum(1 for v in before[0].values() if isinstance(v, list) and any(isinstance(x, str) and x.startswith("uid:") for x in v)))
        out = in_file.write_ui_json(name="round.ui.json", path=d)
        rec.see("files-written")
        text = open(out, encoding="utf-8").read()
        try:
            strict_loads(text)
            rec.check("C14.json", True)
        except ValueError as exc:
            rec.fail("C14.json", op="write", cls="file", attr="", detail=f"not strict JSON: {exc}")
        try:
            if rng.random() < 0.5:
                # options spelled out partially: the missing ones keep their documented defaults
                reload = InputFile.read_ui_json(out, validation_options={"ignore_list": ()})
                rec.see("readers-with-partial-options")
            else:
                reload = InputFile.read_ui_json(out)
            after = snapshot(reload)
        except Exception as exc:  # noqa: BLE001
            if not exc_origin(exc)[0]:
                raise
            rec.fail("C14.value", op="read", cls="file", attr=type(exc).__name__, detail=f"a file the library wrote cannot be read back: {type(exc).__name__}: {exc} | forms {shape}")
            return
        rec.see("empty-string-values", len(raw_empty))
        compare(rec, before, after, "write-read", kinds, raw_empty)
        # promote o demote = identity on identifiers
        dem = InputFile.demote(deepcopy_promoted(reload.ui_json))
        for k, f in dem.items():
            v = f.get("value") if isinstance(f, dict) else f
            orig = reload.ui_json[k].get("value") if isinstance(reload.ui_json[k], dict) else reload.ui_json[k]
            if hasattr(orig, "uid") and not hasattr(orig, "h5file"):
                rec.check("C14.promotion", isinstance(v, str) and v.strip("{}").lower() == str(orig.uid).lower(), op="demote", cls=kinds.get(k, "core"), attr="", detail=f"{k}: entity {orig.uid} demoted to {v!r}")
        prom = reload.promote(InputFile.numify(json.loads(json.dumps(InputFile.stringify(InputFile.demote(flat(reload)))))))
        for k, v in prom.items():
            rec.check("C14.promotion", val_key(v) == after[0].get(k), op="promote-demote", cls=kinds.get(k, "core"), attr="", detail=f"{k}: promote(demote(x)) = {short(canon(val_key(v)))} but x = {short(canon(after[0].get(k)))}")
        # second round: edit values through the data interface, write, read
        from geoh5py.shared.utils import fetch_active_workspace

        with fetch_active_workspace(reload.geoh5):
            edited = edit_values(rec, reload, rng, kinds, ids)
        if edited:
            rec.see("second-round-trips")
            b2 = snapshot(reload)
            out2 = reload.write_ui_json(name="round2.ui.json", path=d)
            try:
                strict_loads(open(out2, encoding="utf-8").read())
                rec.check("C14.json", True)
            except ValueError as exc:
                rec.fail("C14.json", op="write-after-edit", cls="file", attr="", detail=f"not strict JSON: {exc}")
            try:
                again = InputFile.read_ui_json(out2)
                a2 = snapshot(again)
            except Exception as exc:  # noqa: BLE001
                if not exc_origin(exc)[0]:
                    raise
                rec.fail("C14.value", op="read-after-edit", cls="file", attr=type(exc).__name__, detail=f"a file the library wrote after edits cannot be read back: {type(exc).__name__}: {exc}")
                return
            compare(rec, b2, a2, "edit-write-read", kinds, raw_empty)
        extra = set(os.listdir(".")) - cwd_before
        rec.check("C14.side-effect-file", not [x for x in extra if x.endswith(".geoh5")], op="read", cls="file", attr="", detail=f"files created in the working directory: {sorted(extra)}")
        rec.nontrivial = len(order) >= 3 and len(set(order)) >= 2
        rec.shape = sorted(json.dumps(s) for s in shape)
        rec.sample = {"forms": shape[:8], "data": {k: short(canon(v), 60) for k, v in list(before[0].items())[:10]}}
    finally:
        try:
            ws.close()
        except Exception:  # noqa: BLE001
            pass
        shutil.rmtree(d, ignore_errors=True)
        gc.collect()


def deepcopy_promoted(ui):
    out = {}
    for k, v in ui.items():
        out[k] = dict(v) if isinstance(v, dict) else v
    return out


def flat(in_file):
    return dict(in_file.data)


def edit_values(rec, in_file, rng, kinds, ids):
    """Edit some parameters through set_data_value; returns True when something was edited."""
    data = in_file.data
    done = False
    for k in list(data):
        kind = kinds.get(k)
        if kind is None or rng.random() < 0.4:
            continue
        form = in_file.ui_json[k]
        if isinstance(form, dict) and "dependency" in form and "group" not in form and data.get(k) is not None:
            # a dependent parameter whose controlling box says "off" may legitimately be emptied
            flag = bool(data.get(form["dependency"]))
            active = flag if form.get("dependencyType", "enabled") == "enabled" else not flag
            if not active and rng.random() < 0.7:
                try:
                    in_file.set_data_value(k, None)
                    done = True
                    rec.see("edits:none-under-inactive-dependency")
                except Exception as exc:  # noqa: BLE001
                    if not exc_origin(exc)[0]:
                        raise
                    rec.see("edit-rejected:" + type(exc).__name__)
            continue
        if isinstance(form, dict) and ("group" in form or "dependency" in form):
            continue  # what an edit inside a switched-off group / dependency means is not defined by the format
        if any(isinstance(f, dict) and f.get("dependency") == k for f in in_file.ui_json.values()):
            continue  # flipping a controlling checkbox would switch other parameters
        new = None
        if kind == "integer":
            new = rng.choice([3, -7, 10**9])
        elif kind == "float":
            new = rng.choice([2.5, float("inf"), -1e-12])
        elif kind == "string":
            new = rng.choice(["edited", "x y", " ", "\t", "  two spaces  "])
        elif kind == "bool":
            new = not bool(data[k])
        elif kind == "choice":
            new = rng.choice(list(form["choiceList"]))
        elif kind == "data_value":
            pname = form.get("parent")
            parent = data.get(pname)
            if parent is not None and hasattr(parent, "children"):
                kids = [c for c in parent.children if hasattr(c, "values")]
                new = rng.choice([4.25, kids[0]]) if kids else 4.25
        if isinstance(form, dict) and form.get("optional") and rng.random() < 0.3:
            new = None
        if new is None and not (isinstance(form, dict) and form.get("optional")):
            continue
        try:
            in_file.set_data_value(k, new)
            done = True
            rec.see("edits:" + kind)
        except Exception as exc:  # noqa: BLE001
            if not exc_origin(exc)[0]:
                raise
            rec.see("edit-rejected:" + type(exc).__name__)
    return done
