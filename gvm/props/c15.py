"""C15 — ui.json validation accepts exactly the valid values, statelessly.

(1) exhaustive switches: every combination of optional x enabled x group x groupOptional(+enabled) x
dependency x dependencyType x dependency state for `requires_value` and for the accept-None verdict
of InputFile, against a reference predicate written from the documented hierarchy;
(2) accept / reject value classes per validator, enforcer, parameter and form (both stacks);
(3) statelessness: random sequences of good and bad values on one long-lived object, every verdict
compared with the verdict of the same call on a fresh object (differential);
(4) a rejected value leaves stored data and form unchanged (deep snapshots before / after)."""
from __future__ import annotations

import gc
import itertools
import os
import random
import shutil
import tempfile
import uuid
import warnings
from copy import deepcopy

import numpy as np

from ..core import canon, exc_origin, short

PROP = "C15"
LEVEL = "exploration"
RULE = (
    "cases: (a) the full product of the optional/enabled/group/groupOptional/dependency switches (exhaustive), (b) per "
    "validator / enforcer / parameter / form a table of accept and reject value classes, (c) seeded sequences of 8-30 "
    "good and bad values on one long-lived validator, InputFile, InputValidation, Parameter, FormParameter or EnforcerPool, "
    "(d) rejected assignments bracketed by deep snapshots. Non-trivial = >= 2 verdicts compared; distinct = (object class, "
    "switch tuple or value-class sequence)."
)
ASSUMPTIONS = [
    "reference for None-allowed: groupOptional switch above dependency above optional (docstring of requires_value / uijson format docs)",
    "python bools are ints: bool values are not used as integer type probes",
    "statelessness is differential: same call on a fresh object built from the same definition",
]


def floors(tier):
    return {"switch-combinations": 450, "C15.verdict": 1200, "C15.stateful": 1500, "C15.rejected-mutates": 300, "rejections-observed": 300, "acceptances-observed": 300}


def EXHAUSTIVE(tier):
    return "all combinations of the optional / enabled / group / groupOptional / dependency switches for requires_value and InputFile's None verdict"


def gen_cases(tier, seed):
    cases = [{"kind": "switches", "part": i} for i in range(8)]
    cases += [{"kind": "values", "table": t} for t in ["validators", "enforcers", "parameters", "form_parameters", "pydantic", "inputfile", "uijson_two_parents", "inputfile_multi"]]
    n = 140 if tier == "quick" else 2100
    for i in range(n):
        cases.append({"kind": "stateless", "target": ["inputfile", "inputvalidation", "parameter", "formparameter", "enforcerpool", "validators", "inputvalidation_oneof", "cross_forms", "inputfile_reassigned"][i % 9], "length": 8 + (i % 5) * 3 if tier == "quick" else 10 + (i % 5) * 5})
    return cases


def verdict(fn):
    """('accept', None) or ('reject', ExceptionTypeName); harness errors propagate."""
    try:
        fn()
        return "accept", None
    except Exception as exc:  # noqa: BLE001
        from geoh5py.shared.exceptions import BaseValidationError

        if isinstance(exc, (BaseValidationError, ValueError, TypeError, KeyError, UserWarning, AssertionError)) or exc_origin(exc)[0]:
            return "reject", type(exc).__name__
        raise


def run_case(case, rec):
    warnings.simplefilter("ignore")
    rng = random.Random(case["seed"])
    d = tempfile.mkdtemp(prefix="gvm_")
    try:
        {"switches": do_switches, "values": do_values, "stateless": do_stateless}[case["kind"]](case, rec, rng, d)
    finally:
        shutil.rmtree(d, ignore_errors=True)
        gc.collect()


# ------------------------------------------------------------------------------------------
# (1) switches
# ------------------------------------------------------------------------------------------
def ref_requires(ui, name):
    form = ui[name]
    if "group" in form:
        gname = form["group"]
        members = {k: f for k, f in ui.items() if isinstance(f, dict) and f.get("group") == gname}
        carriers = [k for k, f in members.items() if "groupOptional" in f]
        if carriers and members[carriers[0]]["groupOptional"]:
            if not members[carriers[0]].get("enabled", True):
                return False
    if "dependency" in form:
        dep = ui[form["dependency"]]
        key = "enabled" if dep.get("optional", False) else "value"
        state = dep.get(key, True)
        active = bool(state) if form.get("dependencyType", "enabled") == "enabled" else not bool(state)
        if active and "optional" in form:
            return bool(form["enabled"])
        return active
    if "optional" in form:
        return bool(form.get("enabled", True))
    return True


def switch_space():
    opt = [None, (True, True), (True, False), (False, True)]  # (optional, enabled) or absent
    group = [None, "self-on", "self-off", "other-on", "other-off", "plain", "self-on+sibling-off", "other-on+sibling-off"]  # sibling: a third member switched off on its own
    dep = [None] + [(dt, dopt, dstate) for dt in ("enabled", "disabled", None) for dopt in (None, False, True) for dstate in (True, False)]
    return list(itertools.product(opt, group, dep))


def build_switch_ui(combo):
    from geoh5py.ui_json import templates
    from geoh5py.ui_json.constants import default_ui_json

    opt, group, dep = combo
    ui = deepcopy(default_ui_json)
    ui["title"] = "switches"
    p = templates.float_parameter(value=1.0, label="p")
    if opt is not None:
        p["optional"], p["enabled"] = opt
    if group is not None:
        p["group"] = "G"
        other = templates.float_parameter(value=2.0, label="other")
        other["group"] = "G"
        if group.startswith("self"):
            p["groupOptional"] = True
            p["enabled"] = "self-on" in group
        elif group.startswith("other"):
            other["groupOptional"] = True
            other["enabled"] = "other-on" in group
        ui["other"] = other
        if group.endswith("sibling-off"):
            third = templates.float_parameter(value=3.0, label="third")
            third.update(group="G", optional=True, enabled=False)
            ui["third"] = third
    if dep is not None:
        dt, dopt, dstate = dep
        flag = templates.bool_parameter(value=dstate, label="flag")
        if dopt is not None:
            flag["optional"] = dopt
            flag["enabled"] = dstate
            flag["value"] = True
        p["dependency"] = "flag"
        if dt is not None:
            p["dependencyType"] = dt
        ui["flag"] = flag
    ui["p"] = p
    return ui


def do_switches(case, rec, rng, d):
    from geoh5py.ui_json.input_file import InputFile
    from geoh5py.ui_json.utils import requires_value
    from geoh5py.workspace import Workspace

    combos = switch_space()
    part = combos[case["part"] :: 8]
    ws = Workspace.create(os.path.join(d, "w.geoh5"))
    for combo in part:
        rec.see("switch-combinations")
        ui = build_switch_ui(combo)
        ui["geoh5"] = ws
        exp = ref_requires(ui, "p")
        tag = f"opt={combo[0]}|group={combo[1]}|dep={combo[2]}"
        got = requires_value(deepcopy_ui(ui), "p")
        rec.check("C15.verdict", bool(got) == exp, op="requires_value", cls="switches", attr=switch_attr(combo), detail=f"{tag}: requires_value={got} reference={exp}")
        # the accept-None verdict of InputFile must agree: None accepted iff no value is required
        try:
            in_file = InputFile(ui_json=deepcopy_ui(ui), validate=True)
            _ = in_file.data
        except Exception as exc:  # noqa: BLE001
            if not exc_origin(exc)[0]:
                raise
            rec.see("switch-uis-rejected-at-construction")
            continue
        v, err = verdict(lambda: in_file.set_data_value("p", None))
        rec.see("acceptances-observed" if v == "accept" else "rejections-observed")
        rec.check("C15.verdict", (v == "accept") == (not exp), op="InputFile.set_data_value(None)", cls="switches", attr=switch_attr(combo), detail=f"{tag}: None {v} ({err}) but a value is {'required' if exp else 'not required'}")
        # and a number is always accepted
        in2 = InputFile(ui_json=deepcopy_ui(ui), validate=True)
        _ = in2.data
        v2, err2 = verdict(lambda: in2.set_data_value("p", 3.5))
        rec.check("C15.verdict", v2 == "accept", op="InputFile.set_data_value(float)", cls="switches", attr=switch_attr(combo), detail=f"{tag}: 3.5 {v2} ({err2})")
    ws.close()
    rec.nontrivial = True
    rec.shape = ["switches", case["part"], len(part)]
    rec.sample = {"switches": [str(c) for c in part[:4]]}


def switch_attr(combo):
    opt, group, dep = combo
    return f"{'opt' if opt else 'noopt'}:{group or 'nogroup'}:{'dep-' + str(dep[0]) + ('-optdep' + str(dep[1]) if dep[1] is not None else '') if dep else 'nodep'}"


def deepcopy_ui(ui):
    out = {}
    for k, v in ui.items():
        out[k] = deepcopy(v) if isinstance(v, dict) else v
    return out


# ------------------------------------------------------------------------------------------
# scene shared by value tables and statelessness
# ------------------------------------------------------------------------------------------
def scene(d):
    from geoh5py.objects import Curve, Points
    from geoh5py.workspace import Workspace

    ws = Workspace.create(os.path.join(d, "scene.geoh5"))
    a = Points.create(ws, vertices=np.zeros((4, 3)), name="A")
    da = a.add_data({"a1": {"values": np.arange(4.0)}, "a2": {"values": np.arange(4.0)}})
    pga = a.add_data_to_group(da, "multi")
    b = Curve.create(ws, vertices=np.arange(12.0).reshape(4, 3), name="B")
    db = b.add_data({"b1": {"values": np.arange(4.0)}, "b2": {"values": np.arange(4.0)}, "b3": {"values": np.arange(4.0)}})
    pgb = b.find_or_create_property_group(name="vec", property_group_type="3D vector", properties=[x.uid for x in db])
    ws2 = Workspace.create(os.path.join(d, "other.geoh5"))
    c = Points.create(ws2, vertices=np.zeros((2, 3)), name="C")
    return {"ws": ws, "A": a, "B": b, "a1": da[0], "a2": da[1], "b1": db[0], "pga": pga, "pgb": pgb, "ws2": ws2, "C": c}


def judge_table(rec, table, cls):
    """table rows: (label, callable, expect_accept)."""
    for label, fn, expect in table:
        v, err = verdict(fn)
        rec.see("acceptances-observed" if v == "accept" else "rejections-observed")
        rec.check("C15.verdict", (v == "accept") == expect, op=cls, cls=label.split(":")[0], attr=label.split(":", 1)[1], detail=f"{label}: {v} ({err}), expected {'accept' if expect else 'reject'}")


def do_values(case, rec, rng, d):
    s = scene(d)
    t = case["table"]
    try:
        {"validators": values_validators, "enforcers": values_enforcers, "parameters": values_parameters, "form_parameters": values_form_parameters, "pydantic": values_pydantic, "inputfile": values_inputfile, "uijson_two_parents": values_uijson_two_parents, "inputfile_multi": values_inputfile_multi}[t](rec, s, rng)
    finally:
        s["ws"].close()
        s["ws2"].close()
    rec.nontrivial = True
    rec.shape = ["values", t]
    rec.sample = {"table": t}


def values_validators(rec, s, rng):
    from geoh5py.shared import validators as V

    good_uid, bad_uid = str(uuid.uuid4()), "12345-not-a-uuid"
    T, VV, U, A, P, R, O, S = V.TypeValidator, V.ValueValidator, V.UUIDValidator, V.AssociationValidator, V.PropertyGroupValidator, V.RequiredValidator, V.OptionalValidator, V.ShapeValidator
    table = [
        ("TypeValidator:int-ok", lambda: T.validate("p", 5, [int]), True),
        ("TypeValidator:float-for-int", lambda: T.validate("p", 5.5, [int]), False),
        ("TypeValidator:str-ok", lambda: T.validate("p", "a", [str]), True),
        ("TypeValidator:int-for-str", lambda: T.validate("p", 5, [str]), False),
        ("TypeValidator:none-not-listed", lambda: T.validate("p", None, [str]), False),
        ("TypeValidator:none-listed", lambda: T.validate("p", None, [str, type(None)]), True),
        ("TypeValidator:list-elements-ok", lambda: T.validate("p", [1, 2], [int]), True),
        ("TypeValidator:list-element-bad", lambda: T.validate("p", [1, "a"], [int]), False),
        ("TypeValidator:list-as-list", lambda: T.validate("p", [1, "a"], [list]), True),
        ("TypeValidator:single-type", lambda: T.validate("p", 1.5, float), True),
        ("TypeValidator:subclass", lambda: T.validate("p", s["A"], [type(s["A"]).__mro__[1]]), True),
        ("ValueValidator:member", lambda: VV.validate("p", "a", ["a", "b"]), True),
        ("ValueValidator:non-member", lambda: VV.validate("p", "c", ["a", "b"]), False),
        ("ValueValidator:none", lambda: VV.validate("p", None, ["a"]), True),
        ("ValueValidator:list-members", lambda: VV.validate("p", ["a", "b"], ["a", "b"]), True),
        ("ValueValidator:list-non-member", lambda: VV.validate("p", ["a", "z"], ["a", "b"]), False),
        ("ValueValidator:number-member", lambda: VV.validate("p", 2, [1, 2, 3]), True),
        ("ValueValidator:number-non-member", lambda: VV.validate("p", 4, [1, 2, 3]), False),
        ("UUIDValidator:well-formed", lambda: U.validate("p", good_uid), True),
        ("UUIDValidator:braced", lambda: U.validate("p", "{" + good_uid + "}"), True),
        ("UUIDValidator:malformed", lambda: U.validate("p", bad_uid), False),
        ("UUIDValidator:empty", lambda: U.validate("p", ""), False),
        ("UUIDValidator:uuid-object", lambda: U.validate("p", uuid.uuid4()), True),
        ("UUIDValidator:none", lambda: U.validate("p", None), True),
        ("AssociationValidator:child-entity", lambda: A.validate("p", s["a1"], s["A"]), True),
        ("AssociationValidator:child-uid", lambda: A.validate("p", s["a1"].uid, s["A"]), True),
        ("AssociationValidator:other-parent", lambda: A.validate("p", s["b1"], s["A"]), False),
        ("AssociationValidator:other-parent-uid", lambda: A.validate("p", s["b1"].uid, s["A"]), False),
        ("AssociationValidator:pg-of-parent", lambda: A.validate("p", s["pga"], s["A"]), True),
        ("AssociationValidator:pg-other-parent", lambda: A.validate("p", s["pgb"], s["A"]), False),
        ("AssociationValidator:in-workspace", lambda: A.validate("p", s["A"].uid, s["ws"]), True),
        ("AssociationValidator:not-in-workspace", lambda: A.validate("p", uuid.uuid4(), s["ws"]), False),
        ("AssociationValidator:other-workspace", lambda: A.validate("p", s["C"], s["ws"]), False),
        ("AssociationValidator:no-parent", lambda: A.validate("p", s["a1"], None), True),
        ("PropertyGroupValidator:match", lambda: P.validate("p", s["pgb"], "3D vector"), True),
        ("PropertyGroupValidator:mismatch", lambda: P.validate("p", s["pga"], "3D vector"), False),
        ("PropertyGroupValidator:none", lambda: P.validate("p", None, "3D vector"), True),
        ("RequiredValidator:none-required", lambda: R.validate("p", None, True), False),
        ("RequiredValidator:value-required", lambda: R.validate("p", 1, True), True),
        ("RequiredValidator:none-not-required", lambda: R.validate("p", None, False), True),
        ("OptionalValidator:none-optional", lambda: O.validate("p", None, True), True),
        ("OptionalValidator:none-not-optional", lambda: O.validate("p", None, False), False),
        ("OptionalValidator:value", lambda: O.validate("p", 2, False), True),
        ("ShapeValidator:list-ok", lambda: S.validate("p", [1, 2, 3], (3,)), True),
        ("ShapeValidator:list-bad", lambda: S.validate("p", [1, 2], (3,)), False),
        ("ShapeValidator:array-ok", lambda: S.validate("p", np.zeros((2, 2)), (2, 2)), True),
        ("ShapeValidator:scalar", lambda: S.validate("p", 5, (1,)), True),
        ("ShapeValidator:none", lambda: S.validate("p", None, (3,)), True),
    ]
    judge_table(rec, table, "validators")


def values_enforcers(rec, s, rng):
    from geoh5py.ui_json import enforcers as E

    table = [
        ("TypeEnforcer:ok", lambda: E.TypeEnforcer({int}).enforce("p", 3), True),
        ("TypeEnforcer:bad", lambda: E.TypeEnforcer({int}).enforce("p", "3"), False),
        ("TypeEnforcer:none", lambda: E.TypeEnforcer({int}).enforce("p", None), True),
        ("TypeEnforcer:several", lambda: E.TypeEnforcer({int, float}).enforce("p", 2.5), True),
        ("ValueEnforcer:member", lambda: E.ValueEnforcer({"a", "b"}).enforce("p", "a"), True),
        ("ValueEnforcer:non-member", lambda: E.ValueEnforcer({"a", "b"}).enforce("p", "c"), False),
        ("UUIDEnforcer:ok", lambda: E.UUIDEnforcer().enforce("p", str(uuid.uuid4())), True),
        ("UUIDEnforcer:malformed", lambda: E.UUIDEnforcer().enforce("p", "nope"), False),
        ("UUIDEnforcer:none", lambda: E.UUIDEnforcer().enforce("p", None), True),
        ("RequiredEnforcer:present", lambda: E.RequiredEnforcer({"a"}).enforce("p", ["a", "b"]), True),
        ("RequiredEnforcer:missing", lambda: E.RequiredEnforcer({"a", "z"}).enforce("p", ["a", "b"]), False),
        ("RequiredFormMemberEnforcer:missing", lambda: E.RequiredFormMemberEnforcer({"label"}).enforce("p", {"value": 1}), False),
        ("RequiredFormMemberEnforcer:present", lambda: E.RequiredFormMemberEnforcer({"label"}).enforce("p", {"value": 1, "label": "x"}), True),
        ("TypeUIDEnforcer:ok", lambda: E.TypeUIDEnforcer({str(type(s["A"]).default_type_uid())}).enforce("p", s["A"]), True),
        ("TypeUIDEnforcer:bad", lambda: E.TypeUIDEnforcer({str(type(s["A"]).default_type_uid())}).enforce("p", s["B"]), False),
        ("TypeUIDEnforcer:any", lambda: E.TypeUIDEnforcer({""}).enforce("p", s["B"]), True),
    ]
    judge_table(rec, table, "enforcers")


def values_parameters(rec, s, rng):
    from geoh5py.ui_json import parameters as P

    def setv(cls, v, *a):
        def f():
            p = cls("x", *a)
            p.value = v

        return f

    table = [
        ("StringParameter:str", setv(P.StringParameter, "a"), True),
        ("StringParameter:int", setv(P.StringParameter, 1), False),
        ("StringParameter:none", setv(P.StringParameter, None), True),
        ("IntegerParameter:int", setv(P.IntegerParameter, 3), True),
        ("IntegerParameter:float", setv(P.IntegerParameter, 3.5), False),
        ("IntegerParameter:str", setv(P.IntegerParameter, "3"), False),
        ("FloatParameter:float", setv(P.FloatParameter, 3.5), True),
        ("FloatParameter:int", setv(P.FloatParameter, 3), False),
        ("NumericParameter:int", setv(P.NumericParameter, 3), True),
        ("NumericParameter:float", setv(P.NumericParameter, 3.5), True),
        ("NumericParameter:str", setv(P.NumericParameter, "3"), False),
        ("BoolParameter:bool", setv(P.BoolParameter, True), True),
        ("BoolParameter:str", setv(P.BoolParameter, "yes"), False),
        ("StringListParameter:list", setv(P.StringListParameter, ["a", "b"]), True),
        ("StringListParameter:str", setv(P.StringListParameter, "a"), True),
        ("StringListParameter:int", setv(P.StringListParameter, 4), False),
        ("ValueRestrictedParameter:member", setv(P.ValueRestrictedParameter, "a", ["a", "b"]), True),
        ("ValueRestrictedParameter:non-member", setv(P.ValueRestrictedParameter, "z", ["a", "b"]), False),
        ("TypeRestrictedParameter:ok", setv(P.TypeRestrictedParameter, "a", [str]), True),
        ("TypeRestrictedParameter:bad", setv(P.TypeRestrictedParameter, 1, [str]), False),
        ("WorkspaceParameter:ws", setv(P.WorkspaceParameter, s["ws"]), True),
        ("WorkspaceParameter:str", setv(P.WorkspaceParameter, "x.geoh5"), False),
    ]
    judge_table(rec, table, "parameters")


def values_form_parameters(rec, s, rng):
    from geoh5py.ui_json import forms as F

    def mk(cls, *a, **k):
        return lambda: cls("p", *a, **k)

    def setv(cls, v, *a, **k):
        def f():
            p = cls("p", *a, **k)
            p.value = v

        return f

    table = [
        ("StringFormParameter:str", setv(F.StringFormParameter, "a", label="l"), True),
        ("StringFormParameter:int", setv(F.StringFormParameter, 5, label="l"), False),
        ("BoolFormParameter:bool", setv(F.BoolFormParameter, True, label="l"), True),
        ("BoolFormParameter:str", setv(F.BoolFormParameter, "no", label="l"), False),
        ("IntegerFormParameter:int", setv(F.IntegerFormParameter, 4, label="l"), True),
        ("IntegerFormParameter:float", setv(F.IntegerFormParameter, 4.5, label="l"), False),
        ("FloatFormParameter:float", setv(F.FloatFormParameter, 4.5, label="l"), True),
        ("FloatFormParameter:str", setv(F.FloatFormParameter, "4.5", label="l"), False),
        ("ChoiceStringFormParameter:member", setv(F.ChoiceStringFormParameter, "a", ["a", "b"], label="l"), True),
        ("ChoiceStringFormParameter:non-member", setv(F.ChoiceStringFormParameter, "z", ["a", "b"], label="l"), False),
        ("FormParameter:bad-member-type", mk(F.StringFormParameter, value="a", label=5), False),
        ("FormParameter:bad-dependency-type", mk(F.StringFormParameter, value="a", label="l", dependency_type="sometimes"), False),
        ("FormParameter:good-members", mk(F.StringFormParameter, value="a", label="l", optional=True, enabled=False, group="g", tooltip="t"), True),
    ]
    judge_table(rec, table, "form_parameters")


def values_pydantic(rec, s, rng):
    from geoh5py.ui_json import forms as F

    table = [
        ("StringForm:str", lambda: F.StringForm(label="l", value="a"), True),
        ("StringForm:int", lambda: F.StringForm(label="l", value=5), False),
        ("StringForm:no-label", lambda: F.StringForm(value="a"), False),
        ("BoolForm:bool", lambda: F.BoolForm(label="l", value=False), True),
        ("BoolForm:text", lambda: F.BoolForm(label="l", value="maybe"), False),
        ("IntegerForm:int", lambda: F.IntegerForm(label="l", value=3), True),
        ("IntegerForm:fraction", lambda: F.IntegerForm(label="l", value=3.5), False),
        ("IntegerForm:text", lambda: F.IntegerForm(label="l", value="three"), False),
        ("FloatForm:float", lambda: F.FloatForm(label="l", value=3.5), True),
        ("FloatForm:text", lambda: F.FloatForm(label="l", value="x"), False),
        ("ChoiceForm:member", lambda: F.ChoiceForm(label="l", value="a", choice_list=["a", "b"]), True),
        ("ChoiceForm:non-member", lambda: F.ChoiceForm(label="l", value="z", choice_list=["a", "b"]), False),
        ("ChoiceForm:multi-members", lambda: F.ChoiceForm(label="l", value=["a", "b"], choice_list=["a", "b"], multi_select=True), True),
        ("ChoiceForm:multi-non-member", lambda: F.ChoiceForm(label="l", value=["a", "z"], choice_list=["a", "b"], multi_select=True), False),
        ("ObjectForm:uuid", lambda: F.ObjectForm(label="l", value=str(s["A"].uid), mesh_type=[type(s["A"])]), True),
        ("ObjectForm:malformed", lambda: F.ObjectForm(label="l", value="not-a-uuid", mesh_type=[type(s["A"])]), False),
        ("ObjectForm:empty-string", lambda: F.ObjectForm(label="l", value="", mesh_type=[type(s["A"])]), True),
        ("ObjectForm:bad-mesh-type", lambda: F.ObjectForm(label="l", value=str(s["A"].uid), mesh_type=[str(uuid.uuid4())]), False),
        ("DataForm:uuid", lambda: F.DataForm(label="l", value=str(s["a1"].uid), parent="obj", association="Vertex", data_type="Float"), True),
        ("DataForm:bad-association", lambda: F.DataForm(label="l", value=str(s["a1"].uid), parent="obj", association="Edge", data_type="Float"), False),
        ("DataForm:bad-data-type", lambda: F.DataForm(label="l", value=str(s["a1"].uid), parent="obj", association="Vertex", data_type="Complex"), False),
        ("BaseForm:bad-dependency-type", lambda: F.StringForm(label="l", value="a", dependency_type="never"), False),
    ]
    judge_table(rec, table, "pydantic")


def values_uijson_two_parents(rec, s, rng):
    """The parameter-class stack (UIJson.validate): two data forms, each naming its own parent object form.  Data is accepted
    only under the object its own form names as parent - not because it belongs to some object named by another form."""
    from geoh5py.objects import Points
    from geoh5py.ui_json.forms import BoolFormParameter, DataFormParameter, ObjectFormParameter
    from geoh5py.ui_json.parameters import BoolParameter, StringParameter, WorkspaceParameter
    from geoh5py.ui_json.ui_json import UIJson

    ws = s["ws"]
    a, a1 = s["A"], s["a1"]
    b = Points.create(ws, vertices=np.zeros((4, 3)), name="second survey")
    bx = b.add_data({"bx": {"values": np.arange(4.0)}})

    def build(chan_a, chan_b):
        def data_form(name, parent, value):
            return DataFormParameter(name, label=name, parent=parent, association="Vertex", data_type="Float", value=value)

        return UIJson({
            "title": StringParameter("title", value="two surveys"),
            "geoh5": WorkspaceParameter("geoh5", value=ws),
            "run_command": StringParameter("run_command"),
            "run_command_boolean": BoolFormParameter("run_command_boolean", label="run", value=False),
            "monitoring_directory": StringParameter("monitoring_directory"),
            "conda_environment": StringParameter("conda_environment"),
            "conda_environment_boolean": BoolParameter("conda_environment_boolean"),
            "workspace": WorkspaceParameter("workspace"),
            "survey_a": ObjectFormParameter("survey_a", label="Survey A", mesh_type=[str(type(a).default_type_uid())], value=a),
            "survey_b": ObjectFormParameter("survey_b", label="Survey B", mesh_type=[str(type(b).default_type_uid())], value=b),
            "channel_a": data_form("channel_a", "survey_a", chan_a),
            "channel_b": data_form("channel_b", "survey_b", chan_b),
        })

    table = [
        ("UIJson:own-parents", lambda: build(a1, bx).validate(), True),
        ("UIJson:first-channel-from-other-survey", lambda: build(bx, bx).validate(), False),
        ("UIJson:second-channel-from-other-survey", lambda: build(a1, a1).validate(), False),
        ("UIJson:channels-swapped", lambda: build(bx, a1).validate(), False),
    ]
    judge_table(rec, table, "uijson")


def base_ui(s, with_one_of=False):
    from geoh5py.ui_json import templates
    from geoh5py.ui_json.constants import default_ui_json

    ui = deepcopy(default_ui_json)
    ui["title"] = "c15"
    ui["geoh5"] = s["ws"]
    ui["n"] = templates.integer_parameter(value=1, label="n")
    ui["x"] = templates.float_parameter(value=1.5, label="x")
    ui["name"] = templates.string_parameter(value="abc", label="name")
    ui["choice"] = templates.choice_string_parameter(choice_list=("a", "b", "c"), value="a", label="choice")
    ui["flag"] = templates.bool_parameter(value=True, label="flag")
    ui["obj"] = templates.object_parameter(value=str(s["A"].uid), label="obj")
    ui["dat"] = templates.data_parameter(parent="obj", value=str(s["a1"].uid), label="dat")
    ui["optx"] = templates.float_parameter(value=2.0, optional="enabled", label="optx")
    ui["optd"] = templates.float_parameter(value=2.0, optional="disabled", label="optd")
    ui["pg"] = templates.data_parameter(parent="obj", value=str(s["pga"].uid), data_group_type="Multi-element", label="pg")
    return ui


INPUTFILE_VALUES = {
    "n": [(3, True), (-2, True), (2.5, False), ("3", False), (None, False)],
    "x": [(2.5, True), (float("inf"), True), ("x", False), (None, False)],
    "name": [("new", True), (5, False), (None, False)],
    "choice": [("b", True), ("zzz", False), (3, False)],
    "flag": [(False, True), ("yes", False)],
    "optx": [(4.0, True), (None, False), ("a", False)],
    "optd": [(4.0, True), (None, True), ("a", False)],
}


def inputfile_entity_values(s):
    return {
        "obj": [(s["B"], True), (s["A"].uid, True), (uuid.uuid4(), False), (s["C"], False), ("not-a-uuid", False), (5, False)],
        "dat": [(s["a2"], True), (s["a2"].uid, True), (s["b1"], False), (uuid.uuid4(), False)],
        "pg": [(s["pga"], True), (s["pgb"], False)],
    }


def values_inputfile(rec, s, rng):
    from geoh5py.ui_json.input_file import InputFile

    table = []
    allv = dict(INPUTFILE_VALUES)
    allv.update(inputfile_entity_values(s))
    for key, rows in allv.items():
        for val, expect in rows:
            if key == "obj" and val is s["B"]:
                continue  # changing the parent object also changes which data are valid: covered separately

            def f(key=key, val=val):
                in_file = InputFile(ui_json=deepcopy_ui(base_ui(s)), validate=True)
                _ = in_file.data
                in_file.set_data_value(key, val)

            table.append((f"InputFile.{key}:{type(val).__name__}-{'ok' if expect else 'bad'}", f, expect))
    judge_table(rec, table, "inputfile")
    # a rejected value leaves data and form unchanged
    in_file = InputFile(ui_json=deepcopy_ui(base_ui(s)), validate=True)
    _ = in_file.data
    for key, rows in allv.items():
        for val, expect in rows:
            if expect:
                continue
            before = (canon({k: val_key(v) for k, v in in_file.data.items()}), canon(form_snapshot(in_file.ui_json)))
            v, err = verdict(lambda key=key, val=val: in_file.set_data_value(key, val))
            after = (canon({k: val_key(v2) for k, v2 in in_file.data.items()}), canon(form_snapshot(in_file.ui_json)))
            if v == "reject":
                rec.check("C15.rejected-mutates", before == after, op="InputFile.set_data_value", cls="InputFile", attr=key, detail=f"rejected {key}={short(canon(val_key(val)))} changed stored data/form: {short(before)} -> {short(after)}")


def values_inputfile_multi(rec, s, rng):
    """Multi-select object / data forms: every element of the list is subject to the membership rules, whichever
    entry point the list comes through (set_data_value, the data setter, the constructor)."""
    from geoh5py.ui_json import templates
    from geoh5py.ui_json.input_file import InputFile

    def ui_of(value=None):
        ui = base_ui(s)
        ui["many"] = templates.object_parameter(label="many", multi_select=True, value=[str(s["A"].uid)] if value is None else value)
        return ui

    rows = [
        ("members", lambda: [s["A"].uid, s["B"].uid], True),
        ("one-member", lambda: [s["B"].uid], True),
        ("entities", lambda: [s["A"], s["B"]], True),
        ("unknown-uuid", lambda: [uuid.uuid4()], False),
        ("member+unknown", lambda: [s["A"].uid, uuid.uuid4()], False),
        ("unknown+member", lambda: [uuid.uuid4(), s["B"].uid], False),
        ("foreign-entity", lambda: [s["A"], s["C"]], False),
    ]
    table = []
    for label, mk, expect in rows:
        def by_set(mk=mk):
            in_file = InputFile(ui_json=deepcopy_ui(ui_of()), validate=True)
            _ = in_file.data
            in_file.set_data_value("many", mk())

        def by_data(mk=mk):
            in_file = InputFile(ui_json=deepcopy_ui(ui_of()), validate=True)
            data = dict(in_file.data)
            data["many"] = mk()
            in_file.data = data

        def by_ctor(mk=mk):
            val = [str(getattr(v, "uid", v)) for v in mk()]
            in_file = InputFile(ui_json=deepcopy_ui(ui_of(val)), validate=True)
            _ = in_file.data

        table.append((f"InputFile.many:set_data_value-{label}-{'ok' if expect else 'bad'}", by_set, expect))
        table.append((f"InputFile.many:data-{label}-{'ok' if expect else 'bad'}", by_data, expect))
        if label != "foreign-entity":
            table.append((f"InputFile.many:ctor-{label}-{'ok' if expect else 'bad'}", by_ctor, expect))
    judge_table(rec, table, "inputfile")
    # a rejected list leaves data and form unchanged
    in_file = InputFile(ui_json=deepcopy_ui(ui_of()), validate=True)
    _ = in_file.data
    for label, mk, expect in rows:
        if expect:
            continue
        for how in ("set", "data"):
            before = (canon({k: val_key(v) for k, v in in_file.data.items()}), canon(form_snapshot(in_file.ui_json)))
            val = mk()

            def go(how=how, val=val):
                if how == "set":
                    in_file.set_data_value("many", val)
                else:
                    data = dict(in_file.data)
                    data["many"] = val
                    in_file.data = data

            v, err = verdict(go)
            after = (canon({k: val_key(v2) for k, v2 in in_file.data.items()}), canon(form_snapshot(in_file.ui_json)))
            if v == "reject":
                rec.check("C15.rejected-mutates", before == after, op="InputFile." + how, cls="InputFile", attr="many", detail=f"rejected many={label} changed stored data/form: {short(before)} -> {short(after)}")


def val_key(v):
    if isinstance(v, (list, tuple)):
        return [val_key(x) for x in v]
    if hasattr(v, "h5file"):
        return "ws:" + str(v.h5file)
    if hasattr(v, "uid"):
        return "uid:" + str(v.uid)
    return v


def form_snapshot(ui):
    out = {}
    for k, f in ui.items():
        out[k] = {kk: val_key(vv) for kk, vv in f.items()} if isinstance(f, dict) else val_key(f)
    return out


# ------------------------------------------------------------------------------------------
# (3) statelessness + (4) rejected-mutates
# ------------------------------------------------------------------------------------------
def do_stateless(case, rec, rng, d):
    s = scene(d)
    try:
        {"inputfile": st_inputfile, "inputvalidation": st_inputvalidation, "inputvalidation_oneof": st_oneof, "parameter": st_parameter, "formparameter": st_formparameter, "enforcerpool": st_enforcerpool, "validators": st_validators, "cross_forms": st_cross_forms, "inputfile_reassigned": st_inputfile}[case["target"]](case, rec, rng, s)
    finally:
        s["ws"].close()
        s["ws2"].close()
    rec.nontrivial = True
    rec.shape = ["stateless", case["target"], case["length"], (rec.sample or {}).get("sequence")]


def compare_verdicts(rec, cls, attr, label, long_v, fresh_v):
    rec.see("acceptances-observed" if fresh_v[0] == "accept" else "rejections-observed")
    rec.check("C15.stateful", long_v[0] == fresh_v[0], op=cls, cls=cls, attr=attr, detail=f"{label}: long-lived object says {long_v}, a fresh one says {fresh_v}")


def st_inputfile(case, rec, rng, s):
    from geoh5py.ui_json.input_file import InputFile

    allv = dict(INPUTFILE_VALUES)
    ent = inputfile_entity_values(s)
    allv["dat"] = ent["dat"]
    allv["pg"] = ent["pg"]
    allv["obj"] = [r for r in ent["obj"] if r[0] is not s["B"]]
    if case["target"] == "inputfile_reassigned":
        # the long-lived object served another form first (or none, only a workspace); then the form under test is assigned to it
        from geoh5py.ui_json import templates
        from geoh5py.ui_json.constants import default_ui_json

        how = rng.random()
        if how < 0.3:
            # the earlier form held a value its own rules refuse: the read is rejected, then the form is replaced
            first = deepcopy_ui(base_ui(s))
            first["choice"]["value"] = "zzz"
            long_ = InputFile(ui_json=first, validate=True)
            v0 = verdict(lambda: long_.data)
            rec.check("C15.verdict", v0[0] == "reject", op="inputfile", cls="InputFile.choice", attr="read-of-a-bad-form", detail=f"a form whose stored choice is not in its list was read: {v0}")
            rec.see("forms-reassigned:after-a-rejected-read")
        elif how < 0.7:
            first = deepcopy(default_ui_json)
            first.update({"title": "earlier form", "geoh5": s["ws"], "m": templates.integer_parameter(value=4, label="m"),
                          "choice": templates.choice_string_parameter(choice_list=("x", "y"), value="x", label="another choice"),
                          "name": templates.float_parameter(value=0.5, label="a number under the same key")})
            long_ = InputFile(ui_json=first, validate=True)
            _ = long_.data
            if rng.random() < 0.5:
                verdict(lambda: long_.set_data_value("m", 7))
            rec.see("forms-reassigned:after-another-form")
        else:
            long_ = InputFile(validate=True)
            long_.geoh5 = s["ws"]
            rec.see("forms-reassigned:workspace-first")
        long_.ui_json = deepcopy_ui(base_ui(s))
    else:
        long_ = InputFile(ui_json=deepcopy_ui(base_ui(s)), validate=True)
    _ = long_.data
    seq = []
    for _i in range(case["length"]):
        key = rng.choice(sorted(allv))
        val, _exp = rng.choice(allv[key])
        seq.append((key, type(val).__name__))
        fresh = InputFile(ui_json=deepcopy_ui(base_ui(s)), validate=True)
        _ = fresh.data
        fv = verdict(lambda: fresh.set_data_value(key, val))
        before = (canon({k: val_key(v) for k, v in long_.data.items()}), canon(form_snapshot(long_.ui_json)))
        lv = verdict(lambda: long_.set_data_value(key, val))
        compare_verdicts(rec, "InputFile", key, f"set_data_value({key}, {short(canon(val_key(val)), 50)}) after {len(seq) - 1} earlier calls", lv, fv)
        if lv[0] == "accept" and fv[0] == "accept":
            lf, ff = form_snapshot(long_.ui_json).get(key), form_snapshot(fresh.ui_json).get(key)
            if val is None and isinstance(lf, dict) and isinstance(ff, dict):
                # None switches the form off and leaves the last value in place: only the switches are comparable
                lf, ff = ({k: v for k, v in f.items() if k not in ("value", "property")} for f in (lf, ff))
            rec.check("C15.stateful", canon(lf) == canon(ff), op="InputFile", cls="InputFile", attr=key + ":form", detail=f"set_data_value({key}, {short(canon(val_key(val)), 50)}) after {len(seq) - 1} earlier calls leaves the form entry {short(canon(lf))}; on a fresh object {short(canon(ff))}")
        if lv[0] == "reject":
            after = (canon({k: val_key(v) for k, v in long_.data.items()}), canon(form_snapshot(long_.ui_json)))
            rec.check("C15.rejected-mutates", before == after, op="InputFile.set_data_value", cls="InputFile", attr=key, detail=f"rejected value changed stored data/form")
        if _i == case["length"] // 2:
            # the parent object changes while the validators exist: a child added now is a member, a child removed now is not
            late = s["A"].add_data({f"late{case['length']}": {"values": np.arange(s["A"].n_vertices, dtype=float)}})
            gone = s["A"].add_data({f"gone{case['length']}": {"values": np.arange(s["A"].n_vertices, dtype=float)}})
            for who, f in (("long-lived", long_), ("fresh", InputFile(ui_json=deepcopy_ui(base_ui(s)), validate=True))):
                _ = f.data
                v_before = verdict(lambda f=f: f.set_data_value("dat", gone))
                rec.check("C15.verdict", v_before[0] == "accept", op="InputFile.set_data_value", cls="InputFile", attr="dat:child", detail=f"{who}: a child of the parent object was {v_before}")
                f.set_data_value("dat", s["a1"])
            s["ws"].remove_entity(gone)
            for who, f in (("long-lived", long_), ("fresh", InputFile(ui_json=deepcopy_ui(base_ui(s)), validate=True))):
                _ = f.data
                v_late = verdict(lambda f=f: f.set_data_value("dat", late))
                rec.check("C15.stateful", v_late[0] == "accept", op="InputFile", cls="InputFile", attr="dat:child-added-later", detail=f"{who}: a child added to the parent after earlier validations was {v_late}")
                v_gone = verdict(lambda f=f: f.set_data_value("dat", gone))
                rec.check("C15.stateful", v_gone[0] == "reject", op="InputFile", cls="InputFile", attr="dat:child-removed-later", detail=f"{who}: a child removed from the parent after earlier validations was {v_gone}")
                verdict(lambda f=f: f.set_data_value("dat", s["a1"]))
            rec.see("parent-children-changed-between-validations")
    rec.sample = {"target": "inputfile", "sequence": seq[:10]}


def st_inputvalidation(case, rec, rng, s):
    """validate_data with different parent objects on one validator (association must follow the data)."""
    from geoh5py.ui_json.input_file import InputFile
    from geoh5py.ui_json.validation import InputValidation

    def make():
        in_file = InputFile(ui_json=deepcopy_ui(base_ui(s)), validate=True)
        return InputValidation(ui_json=in_file.ui_json, validations=deepcopy(in_file.validations)), dict(in_file.data)

    long_, data0 = make()
    seq = []
    choices = [("A", "a1"), ("A", "a2"), ("B", "b1"), ("A", "b1"), ("B", "a1")]
    for _i in range(case["length"]):
        pk, dk = rng.choice(choices)
        data = dict(data0)
        data["obj"], data["dat"] = s[pk], s[dk]
        data["pg"] = s["pga"] if pk == "A" else None
        if pk == "B":
            data["pg"] = s["pgb"]
        bad_n = rng.random() < 0.3
        if bad_n:
            data["n"] = "three"
        seq.append((pk, dk, bad_n))
        fresh, _ = make()
        fv = verdict(lambda: fresh.validate_data(dict(data)))
        lv = verdict(lambda: long_.validate_data(dict(data)))
        compare_verdicts(rec, "InputValidation", "validate_data", f"validate_data(obj={pk}, dat={dk}, bad_n={bad_n}) after {len(seq) - 1} earlier calls", lv, fv)
    rec.sample = {"target": "inputvalidation", "sequence": seq[:10]}


def st_oneof(case, rec, rng, s):
    """'one_of' groups: at least one of the listed parameters must be given, on every call."""
    from geoh5py.ui_json import templates
    from geoh5py.ui_json.constants import default_ui_json
    from geoh5py.ui_json.validation import InputValidation

    def make():
        ui = deepcopy(default_ui_json)
        ui["title"] = "oneof"
        ui["geoh5"] = s["ws"]
        ui["u"] = templates.float_parameter(value=1.0, optional="enabled", label="u")
        ui["v"] = templates.float_parameter(value=1.0, optional="enabled", label="v")
        validations = {"u": {"one_of": "pair", "optional": True, "types": [float, type(None)]}, "v": {"one_of": "pair", "optional": True, "types": [float, type(None)]}}
        return InputValidation(ui_json=ui, validations=validations)

    long_ = make()
    seq = []
    for _i in range(case["length"]):
        u, v = rng.choice([(1.0, None), (None, 2.0), (None, None), (1.0, 2.0)])
        data = {"title": "oneof", "geoh5": s["ws"], "u": u, "v": v, "run_command": None, "run_command_boolean": False, "monitoring_directory": None, "conda_environment": None, "conda_environment_boolean": False, "workspace": None}
        seq.append((u, v))
        fv = verdict(lambda: make().validate_data(dict(data)))
        lv = verdict(lambda: long_.validate_data(dict(data)))
        compare_verdicts(rec, "InputValidation", "one_of", f"validate_data(u={u}, v={v}) after {len(seq) - 1} earlier calls", lv, fv)
        rec.check("C15.verdict", (fv[0] == "accept") == (u is not None or v is not None), op="InputValidation.one_of", cls="AtLeastOneValidator", attr="fresh", detail=f"u={u} v={v}: {fv}")
    rec.sample = {"target": "one_of", "sequence": seq[:10]}


def st_parameter(case, rec, rng, s):
    from geoh5py.ui_json import parameters as P

    def choice(name):
        return P.ValueRestrictedParameter(name, ["nearest", "linear"], value="linear")

    choice.__name__ = "ValueRestrictedParameter"
    # ill-typed values make some enforcers raise a plain Python exception (unhashable list in a choice set): rejected all the same
    classes = [(P.StringParameter, ["a", "b", 1, None, 2.5]), (P.IntegerParameter, [1, 2, "x", 2.5, None]), (P.FloatParameter, [1.5, 2.5, 1, "x", None]), (P.BoolParameter, [True, False, "t", 1.5]), (P.StringListParameter, ["a", ["a", "b"], 3, None]),
               (choice, ["nearest", "linear", "cubic", ["nearest", "linear"], {"a": 1}, 3])]
    cls, vals = rng.choice(classes)
    long_ = cls("x")
    seq = []
    for _i in range(case["length"]):
        val = rng.choice(vals)
        seq.append(repr(val))
        fresh = cls("x")

        def setf(p=fresh, val=val):
            p.value = val

        def setl(val=val):
            long_.value = val

        fv = verdict(setf)
        before = canon(long_.value)
        lv = verdict(setl)
        compare_verdicts(rec, cls.__name__, "value", f"value={val!r} after {len(seq) - 1} earlier assignments", lv, fv)
        if lv[0] == "reject":
            rec.check("C15.rejected-mutates", canon(long_.value) == before, op="Parameter.value", cls=cls.__name__, attr="value", detail=f"rejected {val!r} is now the stored value (was {before!r})")
    rec.sample = {"target": cls.__name__, "sequence": seq[:10]}


def st_formparameter(case, rec, rng, s):
    from geoh5py.ui_json import forms as F

    classes = [
        (lambda: F.StringFormParameter("p", value="a", label="l"), ["b", "c", 4, None]),
        (lambda: F.IntegerFormParameter("p", value=1, label="l"), [2, 3, "x", 2.5]),
        (lambda: F.FloatFormParameter("p", value=1.0, label="l"), [2.5, "x", 3]),
        (lambda: F.ChoiceStringFormParameter("p", ["a", "b"], value="a", label="l"), ["a", "b", "z", 3, ["a"], ["a", "b"]]),
        (lambda: F.ObjectFormParameter("p", [str(type(s["A"]).default_type_uid())], value=s["A"], label="l"), [s["A"], str(s["A"].uid), s["A"].uid, 3, s["C"]]),
        (lambda: F.BoolFormParameter("p", value=True, label="l"), [True, False, "no"]),
    ]
    make, vals = rng.choice(classes)
    long_ = make()
    seq = []
    for _i in range(case["length"]):
        if rng.random() < 0.25:
            member, mval = rng.choice([("label", "new"), ("label", 7), ("enabled", False), ("enabled", "no"), ("dependency_type", "disabled"), ("dependency_type", "never"), ("tooltip", "t"), ("tooltip", 3), ("group_optional", True), ("group_optional", True), ("group", "g"), ("optional", True)])
            seq.append((member, repr(mval)))
            fresh = make()
            fv = verdict(lambda: fresh.register({member: mval}))
            before = canon(long_.form())
            lv = verdict(lambda: long_.register({member: mval}))
            compare_verdicts(rec, type(long_).__name__, "member:" + member, f"register({member}={mval!r}) after {len(seq) - 1} earlier calls", lv, fv)
            if lv[0] == "reject":
                rec.check("C15.rejected-mutates", canon(long_.form()) == before, op="FormParameter.register", cls=type(long_).__name__, attr=member, detail=f"rejected member {member}={mval!r} changed the form: {short(before)} -> {short(canon(long_.form()))}")
            continue
        val = rng.choice(vals)
        seq.append(repr(val))
        fresh = make()

        def setf(p=fresh, val=val):
            p.value = val

        def setl(val=val):
            long_.value = val

        fv = verdict(setf)
        before = canon(long_.form())
        lv = verdict(setl)
        compare_verdicts(rec, type(long_).__name__, "value", f"value={val!r} after {len(seq) - 1} earlier assignments", lv, fv)
        if lv[0] == "reject":
            rec.check("C15.rejected-mutates", canon(long_.form()) == before, op="FormParameter.value", cls=type(long_).__name__, attr="value", detail=f"rejected {val!r} changed the form: {short(before)} -> {short(canon(long_.form()))}")
    # the form as a whole: the object that went through the sequence and one built in a single call from the same members
    form = dict(long_.form())
    try:
        kw = dict(form)
        args = [kw.pop("choice_list")] if "choice_list" in kw and isinstance(long_, F.ChoiceStringFormParameter) else ([kw.pop("mesh_type", [str(type(s["A"]).default_type_uid())])] if isinstance(long_, F.ObjectFormParameter) else [])
        twin = type(long_)("p", *args, **kw)
        same_form = canon(twin.form()) == canon(form)
    except Exception as exc:  # noqa: BLE001
        if not exc_origin(exc)[0]:
            raise
        twin, same_form = None, False
        rec.see("form-twins-refused:" + type(exc).__name__)
    if twin is not None and same_form:
        lv, fv = verdict(long_.validate), verdict(twin.validate)
        rec.see("form-twins-compared")
        compare_verdicts(rec, type(long_).__name__, "validate", f"validate() of the form {short(canon(form), 160)} after {len(seq)} earlier calls", lv, fv)
    rec.sample = {"target": type(long_).__name__, "sequence": seq[:10]}


def st_cross_forms(case, rec, rng, s):
    """The verdict of a brand-new validator built from a brand-new form does not depend on which other forms this process has
    validated before (multi-select, optional / disabled forms of another application)."""
    from geoh5py.shared.exceptions import BaseValidationError
    from geoh5py.ui_json import InputFile, templates
    from geoh5py.ui_json.constants import default_ui_json
    from geoh5py.ui_json.validation import InputValidation

    ws = s["ws"]

    def forms():
        return {"single object": {"geoh5": ws, "target": templates.object_parameter(label="Target")},
                "single data": {"geoh5": ws, "obj": templates.object_parameter(label="O", value=str(s["A"].uid)), "target": templates.data_parameter(label="D", parent="obj")},
                "required float": {"geoh5": ws, "target": templates.float_parameter(label="F")}}

    def fresh_verdict(which, value):
        v = InputValidation(ui_json=forms()[which])
        data = {"geoh5": ws, "target": value}
        if which == "single data":
            data["obj"] = s["A"]
        try:
            v.validate_data(data)
        except BaseValidationError as err:
            return "reject:" + type(err).__name__
        except Exception as err:  # noqa: BLE001
            return "reject:" + type(err).__name__
        return "accept"

    probes = [("single object", [1, 2], False), ("single object", s["A"].uid, True), ("single object", None, False), ("single data", [1, 2], False), ("single data", s["a1"].uid, True), ("required float", None, False), ("required float", 1.5, True)]
    seq = []
    for round_ in range(2 + case["length"] // 8):
        for which, value, valid in probes:
            got = fresh_verdict(which, value)
            rec.check("C15.stateful", (got == "accept") == valid, op="fresh-validator", cls="InputValidation", attr=f"{which}:after-{round_}-other-apps",
                      detail=f"a brand-new validator for a {which} form judges {short(canon(value))} as {got} (expected {'accept' if valid else 'reject'}) after {round_} unrelated ui.json were processed in this process")
        types_ = [getattr(t, "__name__", str(t)) for t in InputValidation.infer_validations(forms()["single object"])["target"]["types"]]
        rec.check("C15.stateful", sorted(types_) == ["Entity", "UUID", "str"], op="declared-types", cls="InputValidation", attr="single object", detail=f"declared types of a single-select object form are {types_} after {round_} unrelated ui.json")
        # an unrelated application: multi-select object / data forms, optional disabled forms
        other = deepcopy_ui(dict(default_ui_json))
        other["geoh5"] = ws
        other["title"] = "other app"
        other["many"] = templates.object_parameter(label="many", multi_select=True, value=[str(s["A"].uid)])
        other["channel"] = templates.data_parameter(label="ch", parent="many", optional="disabled")
        other["opt"] = templates.float_parameter(label="f", optional="disabled")
        try:
            _ = InputFile(ui_json=other).data
        except Exception as exc:  # noqa: BLE001
            from ..core import exc_origin as _eo

            if not _eo(exc)[0]:
                raise
            rec.see("other-app-rejected:" + type(exc).__name__)
        seq.append("other-app")
        rec.see("cross-form-rounds")
    rec.sample = {"target": "cross_forms", "sequence": seq[:10]}


def st_enforcerpool(case, rec, rng, s):
    from geoh5py.shared.utils import SetDict
    from geoh5py.ui_json.enforcers import EnforcerPool

    defs = [
        (SetDict(type={str}, value={"a", "b"}), ["a", "b", "z", 3, None]),
        (SetDict(type={int}), [1, "x", 2, None]),
        (SetDict(type={str}, uuid=None), [str(uuid.uuid4()), "nope", 5]),
    ]
    val_def, vals = rng.choice(defs)
    long_ = EnforcerPool.from_validations("p", val_def)
    seq = []
    for _i in range(case["length"]):
        val = rng.choice(vals)
        seq.append(repr(val)[:20])
        fv = verdict(lambda: EnforcerPool.from_validations("p", val_def).enforce(val))
        lv = verdict(lambda: long_.enforce(val))
        compare_verdicts(rec, "EnforcerPool", "+".join(sorted(val_def)), f"enforce({val!r}) after {len(seq) - 1} earlier calls", lv, fv)
    rec.sample = {"target": "EnforcerPool", "sequence": seq[:10]}


def st_validators(case, rec, rng, s):
    from geoh5py.shared import validators as V

    inst = {"types": V.TypeValidator(), "values": V.ValueValidator(), "uuid": V.UUIDValidator(), "association": V.AssociationValidator()}
    probes = [
        ("types", (5, [int])), ("types", ("a", [int])), ("types", (None, [int])), ("values", ("a", ["a"])), ("values", ("b", ["a"])),
        ("uuid", (str(uuid.uuid4()),)), ("uuid", ("bad",)), ("association", (s["a1"], s["A"])), ("association", (s["b1"], s["A"])), ("association", (s["a1"].uid, s["ws"])),
    ]
    seq = []
    for _i in range(case["length"]):
        kind, args = rng.choice(probes)
        seq.append(kind)
        fresh = type(inst[kind])()
        fv = verdict(lambda: fresh("p", *args))
        lv = verdict(lambda: inst[kind]("p", *args))
        compare_verdicts(rec, type(inst[kind]).__name__, kind, f"{kind}{short(canon([val_key(a) for a in args]), 80)} after {len(seq) - 1} earlier calls", lv, fv)
    rec.sample = {"target": "validators", "sequence": seq[:10]}
