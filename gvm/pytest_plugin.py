"""pytest plugin: the repository's own tests as an extra workload for the file-layout validator (C02) and the
handle accounting (C11).  Loaded with `-p gvm.pytest_plugin`; the suite's own pass / fail is not the oracle.

Every `Workspace.close()` of a writable, file-backed workspace is followed by a RawSnapshot of the closed file and the
layout validator; every finding is appended to $GVM_PLUGIN_OUT as one JSON line {test, file, rule, kind, detail}.
Files that test code itself opened writable through plain h5py (tests that damage files on purpose), and files closed
while an exception is propagating out of a test's `with` block on purpose are labelled, not dropped, so that the
consumer can decide."""
from __future__ import annotations

import json
import os
import sys
import traceback

import h5py

OUT = os.environ.get("GVM_PLUGIN_OUT")
_tampered: set[str] = set()
_through_parent: set[str] = set()
_stats = {"closes": 0, "validated": 0, "findings": 0, "tampered-skipped": 0, "errors": 0}


def _emit(rec):
    if OUT:
        with open(OUT, "a") as f:
            f.write(json.dumps(rec, default=str) + "\n")


def _outside_library(depth=2):
    f = sys._getframe(depth)  # noqa: SLF001
    while f is not None:
        fn = f.f_code.co_filename
        if os.sep + "geoh5py" + os.sep in fn and os.sep + "tests" + os.sep not in fn:
            return False
        if os.sep + "tests" + os.sep in fn:
            return True
        f = f.f_back
    return False


def pytest_configure(config):
    from geoh5py.workspace import Workspace

    from gvm import snap

    orig_init = h5py.File.__init__

    def file_init(self, name, mode="r", *a, **k):
        if isinstance(name, (str, os.PathLike)) and mode in ("r+", "a", "w", "w-", "x") and _outside_library():
            _tampered.add(os.path.realpath(str(name)))
        return orig_init(self, name, mode, *a, **k)

    h5py.File.__init__ = file_init
    orig_close = Workspace.close

    # removals issued through the parent leave the file node to a lazy sweep (C02 known finding): label their subjects
    from geoh5py.objects.object_base import ObjectBase
    from geoh5py.shared.entity_container import EntityContainer

    for klass in (EntityContainer, ObjectBase):
        if "remove_children" not in vars(klass):
            continue
        orig_rc = klass.remove_children

        def remove_children(self, children, _orig=orig_rc):
            for ch in children if isinstance(children, list) else [children]:
                uid = getattr(ch, "uid", None)
                if uid is not None:
                    _through_parent.add(str(uid))
            return _orig(self, children)

        klass.remove_children = remove_children

    def close(self):
        path = None
        writable = False
        try:
            if self._geoh5 and isinstance(self._h5file, (str, os.PathLike)):  # noqa: SLF001
                path = os.path.realpath(str(self._h5file))  # noqa: SLF001
                writable = self._geoh5.mode in ("r+", "a")  # noqa: SLF001
        except Exception:  # noqa: BLE001
            path = None
        before = h5py.h5f.get_obj_count(h5py.h5f.OBJ_ALL, h5py.h5f.OBJ_FILE)
        result = orig_close(self)
        if path is None or not writable or not os.path.exists(path):
            return result
        from unittest import mock

        from geoh5py.io.h5_writer import H5Writer

        if any(isinstance(v, mock.NonCallableMock) for v in vars(H5Writer).values()):
            _stats["mocked-writer-skipped"] = _stats.get("mocked-writer-skipped", 0) + 1
            return result  # a test replaced writer functions by mocks: the file is not the library's output
        _stats["closes"] += 1
        test = os.environ.get("PYTEST_CURRENT_TEST", "?").split(" ")[0]
        after = h5py.h5f.get_obj_count(h5py.h5f.OBJ_ALL, h5py.h5f.OBJ_FILE)
        if after > before:
            _emit({"test": test, "file": os.path.basename(path), "rule": "H.file-handles-grew", "kind": "Workspace", "detail": f"open HDF5 file objects {before} -> {after} across close()"})
        if path in _tampered:
            _stats["tampered-skipped"] += 1
            return result
        try:
            raw = snap.raw_snapshot(path)
            bad = snap.validate_raw(raw)
            _stats["validated"] += 1
        except Exception:  # noqa: BLE001
            _stats["errors"] += 1
            _emit({"test": test, "file": os.path.basename(path), "rule": "X.validator-error", "kind": "harness", "detail": traceback.format_exc()[-600:]})
            return result
        for rule, kind, detail, subject in bad:
            _stats["findings"] += 1
            _emit({"test": test, "file": os.path.basename(path), "rule": rule, "kind": kind, "detail": str(detail)[:300], "subject": subject,
                   "through_parent": any(u in str(detail) for u in _through_parent)})
        return result

    Workspace.close = close


def pytest_unconfigure(config):
    _emit({"stats": _stats})
