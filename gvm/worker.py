"""Worker: runs a slice of cases of one property in one interpreter, one JSON line per case."""
from __future__ import annotations

import gc
import importlib
import json
import signal
import sys
import time
import traceback
import warnings


class CaseTimeout(Exception):
    pass


def _alarm(signum, frame):  # pragma: no cover
    raise CaseTimeout()


def main(argv):
    prop, casefile, outfile = argv[:3]
    from . import core
    from .known import Known

    warnings.simplefilter("ignore")
    core.assert_repo()
    mod = importlib.import_module(f"gvm.props.{prop.lower()}")
    known = Known()
    with open(casefile, encoding="utf-8") as fh:
        cases = json.load(fh)
    case_timeout = int(getattr(mod, "CASE_TIMEOUT", 180))
    signal.signal(signal.SIGALRM, _alarm)
    with open(outfile, "w", encoding="utf-8") as out:
        for case in cases:
            rec = core.Rec(prop, known)
            core.seed_all(case["seed"])
            t0 = time.time()
            res = {"case": case}
            signal.alarm(case_timeout)
            try:
                mod.run_case(case, rec)
            except CaseTimeout:
                res["inconclusive"] = "case watchdog fired"
            except BaseException as exc:  # noqa: BLE001 - classified below
                signal.alarm(0)
                if isinstance(exc, (KeyboardInterrupt, SystemExit)):
                    raise
                in_lib, fn = core.exc_origin(exc)
                tb = "".join(traceback.format_exception(type(exc), exc, exc.__traceback__))[-1800:]
                if in_lib:
                    # the library raised where the unchanged tree completes the same workload
                    rec.fail(
                        f"{prop}.unexpected-exception",
                        op=case.get("kind", ""),
                        cls=type(exc).__name__,
                        attr=fn,
                        detail=tb,
                    )
                else:
                    res["harness_error"] = tb
            finally:
                signal.alarm(0)
            res.update(rec.result())
            res["wall"] = round(time.time() - t0, 3)
            out.write(json.dumps(res, default=str) + "\n")
            out.flush()
            gc.collect()


if __name__ == "__main__":
    main(sys.argv[1:])
