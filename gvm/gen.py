"""Scene builders: populated instances of every concrete entity class, seeded and tag-encoded.

Vertex i of an object carries the tag ``base + i`` in its x coordinate, so after any removal,
mask or merge a read identifies which original element it came from."""
from __future__ import annotations

import inspect
import random

import numpy as np

GROUP_CLASSES = [
    "ContainerGroup",
    "NoTypeGroup",
    "GiftoolsGroup",
    "SimPEGGroup",
    "UIJsonGroup",
    "AirborneGeophysics",
    "IntegratorGroup",
    "IntegratorProject",
    "QueryGroup",
    "AirborneTheme",
    "EarthModelsTheme",
    "GeochemistryMineralogyDataSet",
    "GeochemistryMineralogyTheme",
    "GeophysicsTheme",
    "GroundTheme",
    "ObservationPointsTheme",
    "RockPropertiesTheme",
    "SamplesTheme",
]
POINT_LIKE = ["Points", "IntegratorPoints"]
CURVE_LIKE = ["Curve", "AirborneMagnetics"]
SURFACE_LIKE = ["Surface", "NeighbourhoodSurface"]
GRID_LIKE = ["Grid2D", "BlockModel", "Octree", "DrapeModel"]
OTHER_OBJECTS = ["Drillhole", "Label", "NoTypeObject", "GeoImage"]
SURVEY_POINT_LIKE = ["MTReceivers", "TipperBaseStations"]
SURVEY_CURVE_LIKE = [
    "AirborneTEMReceivers",
    "AirborneTEMTransmitters",
    "AirborneFEMReceivers",
    "AirborneFEMTransmitters",
    "MovingLoopGroundTEMReceivers",
    "MovingLoopGroundTEMTransmitters",
    "MovingLoopGroundFEMReceivers",
    "MovingLoopGroundFEMTransmitters",
    "LargeLoopGroundTEMReceivers",
    "LargeLoopGroundTEMTransmitters",
    "LargeLoopGroundFEMReceivers",
    "LargeLoopGroundFEMTransmitters",
    "TipperReceivers",
    "PotentialElectrode",
    "CurrentElectrode",
]
BASIC_OBJECTS = POINT_LIKE + CURVE_LIKE + SURFACE_LIKE + GRID_LIKE + OTHER_OBJECTS
ALL_OBJECTS = BASIC_OBJECTS + SURVEY_POINT_LIKE + SURVEY_CURVE_LIKE


def group_class(name):
    from geoh5py import groups

    return getattr(groups, name)


def object_class(name):
    from geoh5py import objects

    return getattr(objects, name)


def tagged_vertices(n, base=0, rng=None):
    rng = rng or random
    v = np.zeros((n, 3))
    for i in range(n):
        v[i] = [float(base + i), float(rng.randint(-5, 5)), float(rng.randint(-3, 3)) * 0.5]
    return v


def curve_cells(n, rng, style="path"):
    if n < 2:
        return np.zeros((0, 2), dtype="uint32")
    if style == "path":
        return np.c_[np.arange(0, n - 1), np.arange(1, n)].astype("uint32")
    if style == "gaps":
        cells = [[i, i + 1] for i in range(n - 1) if rng.random() < 0.6]
        if not cells:
            cells = [[0, 1]]
        return np.array(cells, dtype="uint32")
    cells = [[i, i + 1] for i in range(n - 1)]
    rng.shuffle(cells)
    return np.array(cells, dtype="uint32")


def surface_cells(n, rng, count=None):
    count = count or max(1, n - 2)
    cells = []
    for _ in range(count):
        cells.append(sorted(rng.sample(range(n), 3)))
    return np.array(cells, dtype="uint32")


def build_object(ws, cls_name, parent=None, rng=None, name=None, n=None, base=0, **extra):
    """Create one populated instance of an object class under `parent` (root if None)."""
    rng = rng or random.Random(0)
    cls = object_class(cls_name)
    kw = {}
    if parent is not None:
        kw["parent"] = parent
    if name is not None:
        kw["name"] = name
    n = n or rng.randint(3, 7)
    if cls_name in POINT_LIKE + SURVEY_POINT_LIKE:
        kw["vertices"] = tagged_vertices(n, base, rng)
    elif cls_name in CURVE_LIKE + SURVEY_CURVE_LIKE:
        kw["vertices"] = tagged_vertices(n, base, rng)
        if cls_name not in ("PotentialElectrode", "CurrentElectrode") and rng.random() < 0.5:
            kw["cells"] = curve_cells(n, rng, rng.choice(["path", "gaps"]))
    elif cls_name in SURFACE_LIKE:
        n = max(n, 3)
        kw["vertices"] = tagged_vertices(n, base, rng)
        kw["cells"] = surface_cells(n, rng)
    elif cls_name == "Grid2D":
        kw.update(u_count=rng.randint(1, 5), v_count=rng.randint(2, 5), u_cell_size=rng.choice([1.0, 2.5]), v_cell_size=rng.choice([1.0, 0.5]), origin=[float(base), 1.0, -2.0], rotation=rng.choice([0.0, 30.0, 90.0, 30.0]), dip=rng.choice([0.0, 45.0]))
    elif cls_name == "BlockModel":
        kw.update(
            u_cell_delimiters=np.arange(rng.randint(2, 4), dtype=float),
            v_cell_delimiters=np.arange(rng.randint(2, 4), dtype=float) * 2.0,
            z_cell_delimiters=-np.arange(rng.randint(2, 4), dtype=float),
            origin=[float(base), 5.0, 0.0],
            rotation=rng.choice([0.0, 45.0]),
        )
    elif cls_name == "Octree":
        kw.update(u_count=rng.choice([2, 4]), v_count=rng.choice([2, 4]), w_count=2, u_cell_size=1.0, v_cell_size=2.0, w_cell_size=0.5, origin=[float(base), 0.0, 10.0], rotation=rng.choice([0.0, 30.0]))
    elif cls_name == "DrapeModel":
        nl, layers, prisms, first = None, [], [], 0
        for p in range(rng.randint(1, 3)):
            nl = rng.randint(1, 3)
            prisms.append([float(base + p), 2.0 * p, 10.0, first, nl])
            for k in range(nl):
                layers.append([p, k, 10.0 - 2.0 * (k + 1)])
            first += nl
        kw.update(layers=np.array(layers, dtype=float), prisms=np.array(prisms, dtype=float))
    elif cls_name == "Drillhole":
        kw.update(
            collar=[float(base), 10.0, 100.0],
            surveys=np.array([[0.0, float(rng.choice([0, 45, 90])), -90.0], [50.0, 45.0, -80.0], [100.0, 60.0, -70.0]]),
        )
    elif cls_name == "Label":
        kw.update(target_position=[float(base), 1.0, 2.0], label_position=[float(base) + 1.0, 1.0, 3.0])
    elif cls_name == "GeoImage":
        kw.update(image=np.arange(4 * 5 * 3, dtype="uint8").reshape(4, 5, 3))
    kw.update(extra)
    obj = cls.create(ws, **kw)
    if cls_name == "GeoImage":
        _ = obj.vertices  # the library materialises (and stores) default corners on first access
    return obj


def n_for(obj, association):
    if association == "VERTEX":
        return obj.n_vertices
    if association == "CELL":
        return obj.n_cells
    return None


DATA_KINDS = ["float", "integer", "boolean", "referenced", "text_object", "float_nan", "integer_short"]


def data_spec(obj, kind, association, rng, tag=0):
    """Dictionary for ObjectBase.add_data plus the exact expected values after storage."""
    n = n_for(obj, association)
    if n is None:
        n = 1
    idx = np.arange(n)
    if kind == "float":
        vals = (tag * 1000 + idx).astype(float) + 0.5
        return {"values": vals.copy(), "association": association}, vals
    if kind == "float_nan":
        vals = (tag * 1000 + idx).astype(float) + 0.25
        if n:
            j = rng.randrange(n)
            vals[j] = np.nan
            if n >= 2 and tag % 2 == 0:  # an unbounded entry next to the missing one: infinities are values, not gaps
                vals[(j + 1) % n] = np.inf if tag % 4 == 0 else -np.inf
        return {"values": vals.copy(), "association": association}, vals
    if kind == "integer":
        vals = (tag * 1000 + idx).astype("int32")
        return {"values": vals.copy(), "association": association, "type": "integer"}, vals
    if kind == "integer_short":
        from geoh5py.data.integer_data import IntegerData  # noqa: F401
        from geoh5py.shared import INTEGER_NDV

        k = max(0, n - 1)
        vals = (tag * 1000 + np.arange(k)).astype("int32")
        full = np.r_[vals, np.full(n - k, INTEGER_NDV, dtype="int32")].astype("int32")
        return {"values": vals.copy(), "association": association, "type": "integer"}, full
    if kind == "boolean":
        vals = (idx + tag) % 2 == 0
        return {"values": vals.copy(), "association": association}, vals
    if kind == "referenced":
        vals = ((idx + tag) % 3 + 1).astype("int32")
        vmap = {1: f"A{tag}", 2: "Bé", 3: "C c"}
        return {"values": vals.copy(), "association": association, "type": "referenced", "value_map": vmap}, vals
    if kind == "text_object":
        s = f"text-{tag}-é✓"
        return {"values": s, "association": "OBJECT"}, s
    raise KeyError(kind)


def associations_for(obj):
    out = []
    try:
        if obj.n_vertices:
            out.append("VERTEX")
    except Exception:  # noqa: BLE001
        pass
    try:
        if obj.n_cells:
            out.append("CELL")
    except Exception:  # noqa: BLE001
        pass
    return out or ["OBJECT"]


def concrete_entity_classes():
    """Reflective list of concrete object and group classes exported by the library."""
    from geoh5py import groups, objects

    out = {"objects": [], "groups": []}
    for name, cls in inspect.getmembers(objects, inspect.isclass):
        if hasattr(cls, "default_type_uid") and not inspect.isabstract(cls):
            out["objects"].append(name)
    for name, cls in inspect.getmembers(groups, inspect.isclass):
        if hasattr(cls, "default_type_uid") and not inspect.isabstract(cls) and name not in ("RootGroup", "CustomGroup", "PropertyGroup"):
            out["groups"].append(name)
    return out
