"""Runner: tiers, seeds, worker fan-out, aggregation, verdict, evidence, replay.

usage: python -m gvm.run <Cxx> [quick|thorough] [--replay FILE] [--jobs N] [--keep]
exit 0 = held on everything observed; 1 = violation (``VIOLATION property=<id> replay=<path>``);
2 = inconclusive (a deciding monitor was not reached / harness error / watchdog).
"""
from __future__ import annotations

import hashlib
import importlib
import json
import os
import shutil
import subprocess
import sys
import time
from collections import Counter, defaultdict

from . import core
from .known import Known


def parse(argv):
    prop = argv[0].upper()
    tier = os.environ.get("VERIF_TIER", "quick")
    replay = None
    jobs = None
    keep = False
    i = 1
    while i < len(argv):
        a = argv[i]
        if a in ("quick", "thorough"):
            tier = a
        elif a == "--replay":
            i += 1
            replay = argv[i]
        elif a == "--jobs":
            i += 1
            jobs = int(argv[i])
        elif a == "--keep":
            keep = True
        i += 1
    if tier not in ("quick", "thorough"):
        tier = "quick"
    return prop, tier, replay, jobs, keep


def do_replay(prop, mod, path):
    from .core import Rec, seed_all

    with open(path, encoding="utf-8") as fh:
        rp = json.load(fh)
    case = rp["case"]
    known = Known()
    rec = Rec(prop, known)
    seed_all(case["seed"])
    core.assert_repo()
    try:
        mod.run_case(case, rec)
    except BaseException as exc:  # noqa: BLE001
        in_lib, fn = core.exc_origin(exc)
        if in_lib:
            rec.fail(f"{prop}.unexpected-exception", op=case.get("kind", ""), cls=type(exc).__name__, attr=fn, detail=repr(exc))
        else:
            raise
    want = rp.get("failure", {}).get("sig")
    hit = [f for f in rec.failures if f["sig"] == want] if want else rec.failures
    for f in rec.failures:
        print(("KNOWN " if f["known"] else "FAIL  ") + f["sig"] + "\n      " + f["detail"].replace("\n", "\n      "))
    if hit:
        print(f"replay reproduced: {want or 'failures'}")
        return 1
    print("replay did not reproduce the recorded failure")
    return 0


def main(argv=None):
    argv = list(sys.argv[1:] if argv is None else argv)
    if not argv:
        print(__doc__)
        return 3
    prop, tier, replay, jobs, keep = parse(argv)
    mod = importlib.import_module(f"gvm.props.{prop.lower()}")
    where = core.assert_repo()
    if replay:
        return do_replay(prop, mod, replay)

    t0 = time.time()
    seed = int(os.environ.get("VERIF_SEED", "0") or 0)
    cases = mod.gen_cases(tier, seed)
    for i, c in enumerate(cases):
        c.setdefault("id", i)
        c.setdefault("seed", core.derive_seed(seed, prop, i))
    ncpu = os.cpu_count() or 4
    jobs = jobs or int(os.environ.get("GVM_JOBS", "0") or 0) or min(16, ncpu)
    jobs = max(1, min(jobs, len(cases)))
    work = os.path.join(core.ROOT, ".work", f"{prop}-{os.getpid()}")
    os.makedirs(work, exist_ok=True)
    # longest-first-ish interleave: round robin keeps expensive kinds spread over workers
    slices = [cases[i::jobs] for i in range(jobs)]
    procs = []
    wd_total = float(getattr(mod, "WATCHDOG", {}).get(tier, 1500 if tier == "quick" else 7200))
    env = dict(os.environ)
    env["PYTHONPATH"] = f"{core.REPO}:{core.ROOT}"
    env["PYTHONHASHSEED"] = "0"
    env["PYTHONDONTWRITEBYTECODE"] = "1"
    for w, sl in enumerate(slices):
        cf = os.path.join(work, f"cases{w}.json")
        of = os.path.join(work, f"out{w}.jsonl")
        with open(cf, "w", encoding="utf-8") as fh:
            json.dump(sl, fh)
        lf = open(os.path.join(work, f"log{w}.txt"), "w")
        p = subprocess.Popen([sys.executable, "-m", "gvm.worker", prop, cf, of], cwd=core.ROOT, env=env, stdout=lf, stderr=subprocess.STDOUT)
        procs.append((p, sl, of, lf))
    results = []
    inconclusive = []
    deadline = t0 + wd_total
    for w, (p, sl, of, lf) in enumerate(procs):
        try:
            p.wait(timeout=max(1.0, deadline - time.time()))
        except subprocess.TimeoutExpired:
            p.kill()
            p.wait()
            inconclusive.append(f"worker {w} watchdog fired")
        lf.close()
        got = []
        if os.path.exists(of):
            with open(of, encoding="utf-8") as fh:
                for line in fh:
                    line = line.strip()
                    if line:
                        try:
                            got.append(json.loads(line))
                        except json.JSONDecodeError:
                            pass
        results.extend(got)
        if len(got) < len(sl):
            tail = ""
            try:
                with open(os.path.join(work, f"log{w}.txt"), encoding="utf-8", errors="replace") as fh:
                    tail = fh.read()[-600:]
            except OSError:
                pass
            inconclusive.append(f"worker {w} returned {len(got)}/{len(sl)} cases (rc={p.returncode}) {tail}")

    # ---- aggregate -------------------------------------------------------------------
    known = Known()
    evals, obs = Counter(), Counter()
    shapes = set()
    fails = defaultdict(list)  # sig -> [(case, failure)]
    samples = []
    harness = []
    skipped_tainted = 0
    for r in results:
        evals.update(r.get("evals", {}))
        obs.update(r.get("obs", {}))
        skipped_tainted += r.get("skipped_tainted", 0)
        if r.get("nontrivial"):
            shapes.add(r["shape"])
        if r.get("sample") is not None and len(samples) < 5:
            samples.append(r["sample"])
        if r.get("harness_error"):
            harness.append((r["case"], r["harness_error"]))
        if r.get("inconclusive"):
            inconclusive.append(f"case {r['case'].get('id')}: {r['inconclusive']}")
        for f in r.get("failures", []):
            fails[f["sig"]].append((r["case"], f))
    for case, tb in harness[:5]:
        inconclusive.append(f"harness error in case {case.get('id')} kind={case.get('kind')}: {tb[-500:]}")
    if len(harness) > 5:
        inconclusive.append(f"... {len(harness)} harness errors in total")

    agg = {"evals": evals, "obs": obs, "results": results, "tier": tier}
    floors = {}
    if hasattr(mod, "floors"):
        floors = mod.floors(tier)
    unmet = {k: (obs.get(k, 0) + evals.get(k, 0), v) for k, v in floors.items() if obs.get(k, 0) + evals.get(k, 0) < v}
    for k, (got, need) in unmet.items():
        inconclusive.append(f"floor not reached: {k} = {got} < {need}")

    rep_dir = os.path.join(core.ROOT, "replays", prop)
    violations, known_hits = [], {}
    for sig, lst in sorted(fails.items()):
        case, f = min(lst, key=lambda cf: len(json.dumps(cf[0])))
        entry = known.match(prop, f)
        if entry is not None:
            known_hits.setdefault(entry["id"], {"entry": entry, "count": 0, "sigs": set()})
            known_hits[entry["id"]]["count"] += len(lst)
            known_hits[entry["id"]]["sigs"].add(sig)
            continue
        os.makedirs(rep_dir, exist_ok=True)
        name = hashlib.sha1(sig.encode()).hexdigest()[:12] + ".json"
        path = os.path.join(rep_dir, name)
        with open(path, "w", encoding="utf-8") as fh:
            json.dump({"property": prop, "tier": tier, "verif_seed": seed, "case": case, "failure": f, "occurrences": len(lst), "replay_cmd": f"./check {prop} --replay replays/{prop}/{name}"}, fh, indent=1, default=str)
        violations.append((sig, f, path, len(lst)))

    for kid, h in sorted(known_hits.items()):
        print(f"KNOWN-FINDING: property={prop} {h['entry']['what_fails']} [id={kid} observed={h['count']}]")
    for sig, f, path, n in violations[:25]:
        print(f"VIOLATION property={prop} replay={os.path.relpath(path, core.ROOT)}")
        print(f"  signature: {sig}  (x{n})")
        print("  " + f["detail"][:500].replace("\n", "\n  "))
    if len(violations) > 25:
        print(f"  ... {len(violations)} distinct violating signatures in total")
    stale = [e["id"] for e in known.open_for(prop) if e["id"] not in known_hits]

    wall = round(time.time() - t0, 2)
    total_evals = sum(evals.values())
    coverage = {
        "evaluations": len(results),
        "distinct_nontrivial": len(shapes),
        "rule": getattr(mod, "RULE", ""),
        "samples": samples or [c for c in cases[:2]],
        "clause_evaluations": dict(sorted(evals.items())),
        "clause_evaluations_total": total_evals,
        "observations": dict(sorted(obs.items())),
        "floors": floors,
        "floors_unmet": {k: list(v) for k, v in unmet.items()},
        "workers": jobs,
        "cases_generated": len(cases),
        "known_findings_observed": {k: {"count": h["count"], "signatures": sorted(h["sigs"])} for k, h in known_hits.items()},
        "known_findings_not_observed_this_run": stale,
        "clauses_skipped_on_tainted_entities": skipped_tainted,
        "violating_signatures": [v[0] for v in violations],
        "inconclusive_reasons": inconclusive[:20],
        "geoh5py_imported_from": where,
    }
    if getattr(mod, "EXHAUSTIVE", None):
        ex = mod.EXHAUSTIVE(tier) if callable(mod.EXHAUSTIVE) else mod.EXHAUSTIVE
        if ex:
            coverage["exhaustive"] = True
            coverage["exhaustive_over"] = ex if isinstance(ex, str) else ""
    if hasattr(mod, "extra_coverage"):
        try:
            coverage.update(mod.extra_coverage(agg))
        except Exception as exc:  # noqa: BLE001
            coverage["extra_coverage_error"] = repr(exc)
    evidence = {
        "property_id": prop,
        "tier": tier,
        "seed": seed,
        "level": getattr(mod, "LEVEL", "exploration"),
        "coverage": coverage,
        "assumptions": list(getattr(mod, "ASSUMPTIONS", [])),
        "wall_s": wall,
        "violations": len(violations),
        "verdict": "violated" if violations else ("inconclusive" if inconclusive else "held-on-observed"),
    }
    os.makedirs(os.path.join(core.ROOT, "evidence"), exist_ok=True)
    with open(os.path.join(core.ROOT, "evidence", f"{prop}.json"), "w", encoding="utf-8") as fh:
        json.dump(evidence, fh, indent=1, default=str)
    if not keep:
        shutil.rmtree(work, ignore_errors=True)
        try:
            os.rmdir(os.path.join(core.ROOT, ".work"))
        except OSError:
            pass
    print(
        f"{prop} {tier} seed={seed}: cases={len(results)} distinct_nontrivial={len(shapes)} clause_evals={total_evals} "
        f"violating_signatures={len(violations)} known={len(known_hits)} inconclusive_reasons={len(inconclusive)} wall={wall}s"
    )
    if violations:
        return 1
    if inconclusive:
        for r in inconclusive[:10]:
            print(f"INCONCLUSIVE property={prop} reason={r}")
        return 2
    return 0


if __name__ == "__main__":
    sys.exit(main())
