"""Known findings: matched by mechanism signature, never by seed or value; never written at run time."""
from __future__ import annotations

import fnmatch
import json
import os

from .core import ROOT

PATH = os.path.join(ROOT, "known_findings.json")


class Known:
    def __init__(self, path: str = PATH):
        self.entries = []
        if os.path.exists(path):
            with open(path, encoding="utf-8") as fh:
                self.entries = json.load(fh).get("findings", [])

    def match(self, prop: str, f: dict):
        """Return the *open* entry whose signature pattern covers this failure, if any."""
        for e in self.entries:
            if e.get("status") != "open" or e.get("property") != prop:
                continue
            m = e.get("match", {})
            if all(fnmatch.fnmatchcase(str(f.get(k, "")), str(m.get(k, "*"))) for k in ("clause", "op", "cls", "attr")):
                return e
        return None

    def open_for(self, prop):
        return [e for e in self.entries if e.get("property") == prop and e.get("status") == "open"]

    def fixed_for(self, prop):
        return [e for e in self.entries if e.get("property") == prop and e.get("status") == "fixed"]
