"""Shared plumbing of the monitors: clause recorder, signatures, seeding, canonical values.

A *clause* is a named oracle predicate (e.g. ``C05.pg-mentions-removed``).  Every evaluation is
counted; a failed evaluation yields a *signature* (clause, op kind, entity class, attribute)
that never contains seeds, uids or array contents, so known findings can be keyed by mechanism.
"""
from __future__ import annotations

import hashlib
import json
import os
import random
import sys
import traceback
import uuid
from collections import Counter

ROOT = os.path.dirname(os.path.dirname(os.path.abspath(__file__)))
REPO = os.path.realpath(os.environ.get("GVM_REPO", "/repo"))
_DEPS = os.path.join(ROOT, ".deps")
if os.path.isdir(_DEPS) and _DEPS not in sys.path:
    sys.path.append(_DEPS)  # after site-packages: never shadow the repository's own deps


def assert_repo():
    """The monitors must watch the tree under test, not some other copy."""
    import geoh5py

    where = os.path.realpath(geoh5py.__file__)
    if not where.startswith(REPO + os.sep):
        raise RuntimeError(f"geoh5py imported from {where}, expected under {REPO}")
    return where


def sig_str(f: dict) -> str:
    return "|".join(str(f.get(k, "")) for k in ("clause", "op", "cls", "attr"))


class Rec:
    """Per-case recorder of clause evaluations, observations and failures."""

    def __init__(self, prop: str, known=None):
        self.prop = prop
        self.evals: Counter = Counter()
        self.obs: Counter = Counter()
        self.failures: list[dict] = []
        self._seen: set[str] = set()
        self.known = known
        self.tainted: set = set()
        self.skipped_tainted = 0
        self.shape: list = []  # canonical description of the case shape (no random values)
        self.sample = None
        self.nontrivial = False

    # -- observations ---------------------------------------------------------------
    def see(self, key: str, n: int = 1):
        self.obs[key] += n

    # -- clauses --------------------------------------------------------------------
    def check(self, clause: str, cond, op="", cls="", attr="", detail="") -> bool:
        self.evals[clause] += 1
        if not cond:
            self.fail(clause, op, cls, attr, detail, counted=True)
        return bool(cond)

    def fail(self, clause, op="", cls="", attr="", detail="", counted=False):
        if not counted:
            self.evals[clause] += 1
        f = {
            "clause": clause,
            "op": str(op),
            "cls": str(cls),
            "attr": str(attr),
            "detail": str(detail)[-1500:],
        }
        s = sig_str(f)
        if s in self._seen:
            return f
        self._seen.add(s)
        f["sig"] = s
        f["known"] = bool(self.known and self.known.match(self.prop, f))
        self.failures.append(f)
        return f

    def is_known(self, clause, op="", cls="", attr="") -> bool:
        f = {"clause": clause, "op": str(op), "cls": str(cls), "attr": str(attr)}
        return bool(self.known and self.known.match(self.prop, f))

    def result(self) -> dict:
        shape = hashlib.sha1(json.dumps(self.shape, sort_keys=True, default=str).encode()).hexdigest()[:16]
        return {
            "evals": dict(self.evals),
            "obs": dict(self.obs),
            "failures": self.failures,
            "shape": shape,
            "nontrivial": bool(self.nontrivial),
            "sample": self.sample,
            "skipped_tainted": self.skipped_tainted,
        }


# ------------------------------------------------------------------------------------------
# determinism
# ------------------------------------------------------------------------------------------
_real_uuid4 = uuid.uuid4


def seed_all(seed: int):
    """Seed every source of randomness the library and the drivers use (incl. uuid4)."""
    import numpy as np

    random.seed(seed)
    np.random.seed(seed % (2**32))
    rng = random.Random((seed * 2654435761) % (2**61))

    def _uuid4():
        return uuid.UUID(int=rng.getrandbits(128), version=4)

    uuid.uuid4 = _uuid4
    return random.Random(seed)


def derive_seed(base: int, *parts) -> int:
    h = hashlib.sha256(("/".join(str(p) for p in (base,) + parts)).encode()).digest()
    return int.from_bytes(h[:6], "big")


# ------------------------------------------------------------------------------------------
# canonical values (JSON-able, NaN == NaN, exact on dtype)
# ------------------------------------------------------------------------------------------
def _canon_scalar(v):
    import numpy as np

    if isinstance(v, (np.floating, float)):
        v = float(v)
        if v != v:
            return "NaN"
        if v in (float("inf"), float("-inf")):
            return "inf" if v > 0 else "-inf"
        return v
    if isinstance(v, (np.integer,)):
        return int(v)
    if isinstance(v, (np.bool_,)):
        return bool(v)
    if isinstance(v, bytes):
        try:
            return "b:" + v.decode("utf-8")
        except UnicodeDecodeError:
            return "bx:" + v.hex()
    if isinstance(v, np.void):
        return canon(v.tolist())
    return v


def canon(v, big: int = 400):
    """Canonical JSON-able form of any value the API returns."""
    import numpy as np

    if v is None or isinstance(v, (bool, int, str)):
        return v
    if isinstance(v, uuid.UUID):
        return "u:" + str(v)
    if isinstance(v, np.ndarray):
        if v.dtype.names:
            dt = [(n, v.dtype[n].str) for n in v.dtype.names]
        else:
            dt = v.dtype.str if v.dtype != object else "O"
        if v.size > big:
            try:
                if v.dtype.kind == "f":
                    vv = np.where(np.isnan(v), np.array(np.nan, dtype=v.dtype), v)
                    data = "sha:" + hashlib.sha1(np.ascontiguousarray(vv).tobytes()).hexdigest()
                elif v.dtype == object or v.dtype.names:
                    data = "sha:" + hashlib.sha1(json.dumps(canon(v.tolist()), default=str).encode()).hexdigest()
                else:
                    data = "sha:" + hashlib.sha1(np.ascontiguousarray(v).tobytes()).hexdigest()
            except Exception:  # pragma: no cover
                data = "sha:" + hashlib.sha1(repr(v.tolist()).encode()).hexdigest()
        else:
            data = canon(v.tolist())
        return {"nd": dt, "shape": list(v.shape), "data": data}
    if isinstance(v, (list, tuple)):
        return [canon(x, big) for x in v]
    if isinstance(v, dict):
        return {str(canon_key(k)): canon(x, big) for k, x in v.items()}
    if isinstance(v, (set, frozenset)):
        return sorted((canon(x, big) for x in v), key=lambda x: json.dumps(x, sort_keys=True, default=str))
    import enum

    if isinstance(v, enum.Enum):
        return "enum:" + v.name
    if hasattr(v, "uid") and isinstance(getattr(v, "uid", None), uuid.UUID):
        return "ent:" + str(v.uid)
    if isinstance(v, (float, np.floating, np.integer, np.bool_, bytes, np.void)):
        return _canon_scalar(v)
    if isinstance(v, os.PathLike):
        return "path:" + str(v)
    tname = type(v).__name__
    if tname == "ReferenceValueMap":
        return {"value_map": canon(getattr(v, "map", None), big)}
    if tname == "ColorMap":
        return {"color_map": getattr(v, "name", None), "values": canon(getattr(v, "_values", None), big)}
    if tname.endswith("PropertyGroup") and hasattr(v, "uid"):
        return "pg:" + str(v.uid)
    if hasattr(v, "uid") and hasattr(v, "name"):
        return "obj:" + tname + ":" + str(getattr(v, "uid", ""))
    r = repr(v)
    if " object at 0x" in r:
        return "obj:" + tname
    return "repr:" + tname + ":" + r[:200]


def canon_key(k):
    if isinstance(k, uuid.UUID):
        return "u:" + str(k)
    import numpy as np

    if isinstance(k, (np.integer,)):
        return int(k)
    return k


def digest(obj) -> str:
    return hashlib.sha1(json.dumps(obj, sort_keys=True, default=str).encode()).hexdigest()


def diff_paths(a, b, path="", out=None, limit=12):
    """List the paths at which two canonical structures differ."""
    if out is None:
        out = []
    if len(out) >= limit:
        return out
    if isinstance(a, dict) and isinstance(b, dict):
        for k in sorted(set(a) | set(b), key=str):
            if k not in a:
                out.append((f"{path}/{k}", "<absent>", b[k]))
            elif k not in b:
                out.append((f"{path}/{k}", a[k], "<absent>"))
            else:
                diff_paths(a[k], b[k], f"{path}/{k}", out, limit)
            if len(out) >= limit:
                break
        return out
    if isinstance(a, list) and isinstance(b, list) and len(a) == len(b) and len(a) <= 50:
        for i, (x, y) in enumerate(zip(a, b)):
            diff_paths(x, y, f"{path}[{i}]", out, limit)
            if len(out) >= limit:
                break
        return out
    if a != b:
        out.append((path, a, b))
    return out


def short(v, n=160):
    s = json.dumps(v, default=str, sort_keys=True) if not isinstance(v, str) else v
    return s if len(s) <= n else s[: n - 3] + "..."


def exc_origin(exc: BaseException):
    """(in_library, function name): walking from the innermost frame outwards, does the first frame that
    belongs to either the library under test or the harness belong to the library?"""
    tb = traceback.extract_tb(exc.__traceback__)
    lib_root = os.path.join(REPO, "geoh5py") + os.sep
    har_root = os.path.join(ROOT, "gvm") + os.sep
    for fr in reversed(tb):
        fn = fr.filename
        if not os.path.isabs(fn):
            continue  # compiled extension frames (h5py/*.pyx)
        fn = os.path.realpath(fn)
        if fn.startswith(lib_root):
            return True, fr.name
        if fn.startswith(har_root):
            return False, fr.name
    return False, tb[-1].name if tb else ""
