"""History engine: seeded sequences of public-API operations on one (or two) workspaces, with an
executable reference model (TreeModel) and monitor call-backs around every operation.

Used by C01 (re-open), C02 (layout), C05 (deletion), C06 (identifiers), C09 (frame), C11 (close).
The engine decides *what to call*; monitors only observe (snapshots, raw file reads, digests).
"""
from __future__ import annotations

import gc
import os
import random
import shutil
import tempfile
import uuid

import numpy as np

from . import gen, snap
from .core import canon, diff_paths, short

FLAGS = ["allow_delete", "allow_move", "allow_rename", "public", "visible", "partially_hidden"]
NAMES = ["alpha", "Beta b", "γ-gamma", "delta/slash", "e" * 40, "ζ✓", "n0", "data.1"]


class Node:
    __slots__ = ("uid", "kind", "cls", "parent", "name", "flags", "values", "assoc", "pgs", "meta", "dkind", "protected", "expect_arrays")

    def __init__(self, uid, kind, cls, parent, name):
        self.uid, self.kind, self.cls, self.parent, self.name = uid, kind, cls, parent, name
        self.flags = {}
        self.values = None  # canonical values the user assigned (data only); None = not asserted
        self.assoc = None
        self.pgs = {}  # object only: pg name -> list of data uids
        self.expect_arrays = {}  # array fields the user assigned last (canonical form)
        self.meta = None
        self.dkind = None
        self.protected = False


class TreeModel:
    """What the user's calls determine: which entities exist, where, named how, holding what."""

    def __init__(self, root_uid):
        self.nodes: dict[str, Node] = {}
        self.root = root_uid
        self.nodes[root_uid] = Node(root_uid, "group", "RootGroup", None, "Workspace")
        self.removed: set[str] = set()

    def children(self, uid):
        return [n.uid for n in self.nodes.values() if n.parent == uid]

    def subtree(self, uid):
        out, stack = [], [uid]
        while stack:
            u = stack.pop()
            out.append(u)
            stack.extend(self.children(u))
        return out

    def of_kind(self, *kinds):
        return [n for n in self.nodes.values() if n.kind in kinds and n.uid != self.root]

    def is_descendant(self, uid, anc):
        while uid is not None:
            if uid == anc:
                return True
            uid = self.nodes[uid].parent
        return False


class Monitor:
    """Base class of observers."""

    def start(self, eng):
        pass

    def before(self, eng, op):
        pass

    def after(self, eng, op, ok):
        pass

    def at_close(self, eng, path, live, final):
        pass

    def at_reopen(self, eng):
        pass

    def finish(self, eng):
        pass


class Engine:
    def __init__(self, rec, rng, prop, weights=None, monitors=(), gc_plan="default", ref_policy="strong", classes=None, groups=None, second_ws=False, n_ops=15, in_memory_start=False, script=None):
        self.script = list(script or [])
        self.force_kinds = None
        self.rec, self.rng, self.prop = rec, rng, prop
        self.monitors = list(monitors)
        self.gc_plan, self.ref_policy = gc_plan, ref_policy
        self.classes = classes or gen.BASIC_OBJECTS
        self.groups = groups or gen.GROUP_CLASSES
        self.n_ops = n_ops
        self.dir = tempfile.mkdtemp(prefix="gvm_")
        self.path = os.path.join(self.dir, "w.geoh5")
        self.weights = dict(DEFAULT_WEIGHTS)
        if weights:
            self.weights.update(weights)
        self.log = []
        self.refs = {}
        self.counter = 0
        self.aborted = None
        self.ws2 = None
        self.second_ws = second_ws
        self.last_footprint = None
        self.pending_victims: set[str] = set()
        self.parent_removed: set[str] = set()  # flat nodes the library sweeps lazily (or never)
        self.unobserved_closes = 0.0  # share of closes before which the monitors read nothing from the live session
        self.stale_reuse: set[str] = set()  # identifiers re-used while such a node was still stored (C06 lanes only)
        self.freed = 0
        from geoh5py.workspace import Workspace

        if in_memory_start:
            self.ws = Workspace().save_as(self.path)
        else:
            self.ws = Workspace.create(self.path)
        self.model = TreeModel(str(self.ws.root.uid))
        if second_ws:
            self.path2 = os.path.join(self.dir, "w2.geoh5")
            self.ws2 = Workspace.create(self.path2)
            self.copied_out = 0

    # ------------------------------------------------------------------ plumbing
    def cleanup(self):
        for w in (self.ws, self.ws2):
            try:
                if w is not None:
                    w.close()
            except Exception:  # noqa: BLE001
                pass
        self.refs.clear()
        shutil.rmtree(self.dir, ignore_errors=True)

    def ent(self, uid):
        """The user's handle on an entity according to the reference policy."""
        if self.ref_policy == "strong" and uid in self.refs:
            return self.refs[uid]
        e = self.ws.get_entity(uuid.UUID(uid))[0]
        if e is None and uid == self.model.root:
            e = self.ws.root
        under_stale = False
        if self.stale_reuse and e is None and uid in self.model.nodes:
            a = self.model.nodes[uid].parent
            while a in self.model.nodes and not under_stale:
                under_stale = a in self.stale_reuse
                a = self.model.nodes[a].parent
        if under_stale or uid in self.stale_reuse and uid in self.model.nodes and (e is None or type(e).__name__ != self.model.nodes[uid].cls):
            # the identifier was re-used while the node of a parent-route removal was still stored (open finding of C06): it
            # resolves to that node, or to nothing, instead of the entity the history created - the history cannot act on it
            self.rec.see("stale-node-resolutions")
            raise ExpectedRefusal("identifier resolves to the stale node of a parent-route removal")
        if self.ref_policy == "strong" and e is not None:
            self.refs[uid] = e
        return e

    def remember(self, e):
        if self.ref_policy == "strong":
            self.refs[str(e.uid)] = e

    def new_name(self, prefix):
        self.counter += 1
        if prefix in ("o", "g", "r", "d") and not getattr(self, "_project_name_used", False) and self.rng.random() < 0.04:
            # an entity may carry any name, the project's own included
            self._project_name_used = True
            self.rec.see("entity-named-like-the-project")
            return "GEOSCIENCE"
        return f"{prefix}{self.counter}_{self.rng.choice(NAMES)}"

    def _gc_callback(self, phase, info):
        if phase == "stop" and info.get("collected", 0) > 0:
            self.freed += info["collected"]

    # ------------------------------------------------------------------ running
    def step(self, step):
        """Execute one operation (with monitors); returns False when the library raised."""
        rec = self.rec
        if self.script:
            kind, self.force_kinds = self.script[step]
        else:
            kind = self.choose()
        op = {"step": step, "op": kind}
        self.last_footprint = {"content": set(), "links": set(), "create": False, "delete": set(), "any_type": False, "types": set()}
        for m in self.monitors:
            m.before(self, op)
        ok = True
        thresholds = None
        if self.gc_plan == "aggressive":
            # the cyclic collector runs after (almost) every container allocation: collections land inside the library's own
            # calls, between its detach / sweep / write steps, not only between two operations of the driver
            thresholds = gc.get_threshold()
            gc.set_threshold(1, 1, 1)
            rec.see("aggressive-gc-ops")
        try:
            getattr(self, "op_" + kind)(op)
        except ExpectedRefusal as r:
            op["refused"] = str(r)
        except Exception as exc:  # noqa: BLE001
            ok = False
            op["raised"] = f"{type(exc).__name__}: {str(exc)[:200]}"
            from .core import exc_origin

            in_lib, fn = exc_origin(exc)
            if not in_lib:
                raise
            stale = self.stale_reuse and (op.get("target") in self.stale_reuse or op.get("uid") in self.stale_reuse)
            # an operation on an identifier that was re-used while the node of a parent-route removal was still stored acts on
            # that node after a re-open (open finding of C06): what goes wrong there is attributed to it
            rec.fail(f"{self.prop}.op-raises", op=kind, cls=op.get("cls", ""), attr="stale-node-of-parent-removal" if stale else f"{type(exc).__name__}@{fn}", detail=f"{op} -> {op['raised']}")
            self.aborted = op
        finally:
            if thresholds is not None:
                gc.set_threshold(*thresholds)
        self.log.append(op)
        if os.environ.get("GVM_TRACE"):
            print("OP", {k: v for k, v in op.items() if k != "removed"}, flush=True)
        rec.see("op:" + kind)
        if not ok:
            return False
        for m in self.monitors:
            m.after(self, op, ok)
        if self.gc_plan == "every" or (self.gc_plan == "seeded" and self.rng.random() < 0.3):
            gc.collect()
            rec.see("gc-points")
        if self.ref_policy == "drop" or (self.ref_policy == "strong" and self.rng.random() < 0.1):
            self.refs.clear()
        return True

    def run(self, body=None):
        """Run the whole history (or a caller-supplied body that drives step())."""
        rec = self.rec
        gc_was = gc.isenabled()
        if self.gc_plan == "off":
            gc.disable()
        gc.callbacks.append(self._gc_callback)
        try:
            for m in self.monitors:
                m.start(self)
            if body is not None:
                body(self)
            else:
                for step in range(len(self.script) or self.n_ops):
                    if not self.step(step):
                        break
                if self.aborted is None:
                    self.close_and_check(final=True)
            for m in self.monitors:
                m.finish(self)
        finally:
            gc.callbacks.remove(self._gc_callback)
            if gc_was:
                gc.enable()
            rec.see("gc-freed-objects", self.freed)
            self.cleanup()

    def close_and_check(self, final=False):
        live = None
        if any(getattr(m, "wants_live", False) for m in self.monitors) and not (self.unobserved_closes and self.rng.random() < self.unobserved_closes):
            errors = []
            live = snap.api_snapshot(self.ws, errors=errors)
            self.live_errors = errors
        self.refs.clear()
        self.ws.close()
        self.rec.see("closes")
        for m in self.monitors:
            m.at_close(self, self.path, live, final)

    # ------------------------------------------------------------------ choosing
    def choose(self):
        m = self.model
        if getattr(self, "force_next", None):
            k, self.force_next = self.force_next, None
            return k
        avail = []
        objs, grps, data = m.of_kind("object"), m.of_kind("group"), m.of_kind("data")
        for k, w in self.weights.items():
            if w <= 0:
                continue
            if k in ("mk_group", "mk_object", "mk_deferred", "reopen", "gc", "listing", "open_again"):
                avail.append((k, w))
            elif k in ("add_data", "comment", "add_file", "edit_vertices") and objs:
                avail.append((k, w))
            elif k == "remove_many" and len(objs) + len(grps) >= 2:
                avail.append((k, w))
            elif k in ("set_values",) and any(d.dkind in VALUE_KINDS for d in data):
                avail.append((k, w))
            elif k in ("rename", "flag", "remove", "copy", "dup_uid", "type_rename") and (objs or grps or data):
                avail.append((k, w))
            elif k in ("metadata",) and (objs or grps):
                avail.append((k, w))
            elif k == "move" and (objs or grps) and (len(grps) >= 1):
                avail.append((k, w))
            elif k == "half_write":
                avail.append((k, w))
            elif k == "set_parts" and any(o.cls == "Curve" for o in objs):
                avail.append((k, w))
            elif k == "clip" and (objs or grps):
                avail.append((k, w))
            elif k in ("move_data", "add_data_fail") and objs:
                avail.append((k, w))
            elif k == "pg_add_second" and any(any(m for m in o.pgs.values()) for o in objs):
                avail.append((k, w))
            elif k == "pg_create_empty" and objs:
                avail.append((k, w))
            elif k in ("pg_add",) and any(self._pg_candidates(o) for o in objs):
                avail.append((k, w))
            elif k == "pg_remove_data" and any(any(m for m in o.pgs.values()) for o in objs):
                avail.append((k, w))
            elif k == "pg_delete" and any(o.pgs for o in objs):
                avail.append((k, w))
            elif k == "foreign_pg" and len(objs) >= 2 and any(o.pgs for o in objs):
                avail.append((k, w))
            elif k == "remove_protected" and (objs or data):
                avail.append((k, w))
            elif k == "remove_partial" and data:
                avail.append((k, w))
            elif k in ("recreate", "copy_back") and self.ws2 is not None:
                avail.append((k, w))
            elif k == "copy_out" and self.ws2 is not None and (objs or grps):
                avail.append((k, w))
        total = sum(w for _, w in avail)
        x = self.rng.random() * total
        for k, w in avail:
            x -= w
            if x <= 0:
                return k
        return avail[-1][0]

    def _pg_candidates(self, o):
        kids = [self.model.nodes[c] for c in self.model.children(o.uid)]
        return [k for k in kids if k.kind == "data" and k.assoc in ("VERTEX", "CELL")]

    def pick_container(self):
        cands = [self.model.root] + [g.uid for g in self.model.of_kind("group")]
        return self.rng.choice(cands)

    # ------------------------------------------------------------------ operations
    def op_mk_group(self, op):
        parent = self.pick_container()
        cls = self.rng.choice(self.groups)
        name = self.new_name("g")
        op.update(cls=cls, parent=parent, name=name)
        fp = self.last_footprint
        fp["create"], fp["any_type"] = True, True
        fp["links"].add("Groups/" + br(parent))
        g = gen.group_class(cls).create(self.ws, parent=self.ent(parent), name=name)
        self.remember(g)
        n = Node(str(g.uid), "group", type(g).__name__, parent, name)
        self.model.nodes[n.uid] = n
        op["uid"] = n.uid

    def op_mk_deferred(self, op):
        """Creation through the documented `Workspace.create_entity(..., save_on_creation=False)`: the entity lives in the
        session at once and is stored by a later save of its parent, of one of its children, or by the close."""
        from geoh5py.objects import Points

        parent = self.pick_container()
        as_group = self.rng.random() < 0.6
        cls = self.rng.choice(self.groups) if as_group else "Points"
        name = self.new_name("q")
        op.update(cls=cls, parent=parent, name=name)
        fp = self.last_footprint
        fp["create"], fp["any_type"] = True, True
        fp["links"].add("Groups/" + br(parent))
        if as_group:
            e = self.ws.create_entity(gen.group_class(cls), save_on_creation=False, entity={"name": name, "parent": self.ent(parent)})
        else:
            xyz = np.array([[float(i), float(self.counter), float(self.rng.randint(0, 5))] for i in range(self.rng.randint(2, 6))])
            e = self.ws.create_entity(Points, save_on_creation=False, entity={"name": name, "parent": self.ent(parent), "vertices": xyz})
        self.remember(e)
        n = Node(str(e.uid), "group" if as_group else "object", type(e).__name__, parent, name)
        self.model.nodes[n.uid] = n
        op["uid"] = n.uid
        self.rec.see("deferred-creations")

    def op_mk_object(self, op):
        parent = self.pick_container()
        cls = self.rng.choice(self.classes)
        name = self.new_name("o")
        op.update(cls=cls, parent=parent, name=name)
        fp = self.last_footprint
        fp["create"], fp["any_type"] = True, True
        fp["links"].add("Groups/" + br(parent))
        o = gen.build_object(self.ws, cls, parent=self.ent(parent), rng=self.rng, name=name, base=100 * self.counter)
        self.remember(o)
        n = Node(str(o.uid), "object", type(o).__name__, parent, name)
        self.model.nodes[n.uid] = n
        op["uid"] = n.uid
        # children the library creates by itself (e.g. GeoImage file data) are learned, not asserted
        for c in o.children:
            if not snap._is_pg(c):
                cn = Node(str(c.uid), "data", type(c).__name__, n.uid, c.name)
                cn.dkind = "auto"
                self.model.nodes[cn.uid] = cn

    def op_add_data(self, op):
        o = self.rng.choice(self.model.of_kind("object"))
        obj = self.ent(o.uid)
        assoc = self.rng.choice(gen.associations_for(obj))
        kind = self.rng.choice(gen.DATA_KINDS)
        if assoc == "OBJECT":
            kind = "text_object"
        name = self.new_name("d")
        spec, exp = gen.data_spec(obj, kind, assoc, self.rng, tag=self.counter)
        op.update(cls=o.cls, target=o.uid, kind=kind, assoc=spec["association"], name=name)
        fp = self.last_footprint
        fp["create"], fp["any_type"] = True, True
        fp["links"].add("Objects/" + br(o.uid))
        d = obj.add_data({name: spec})
        self.remember(d)
        n = Node(str(d.uid), "data", type(d).__name__, o.uid, name)
        n.values, n.assoc, n.dkind = canon(exp), spec["association"], kind
        self.model.nodes[n.uid] = n
        op["uid"] = n.uid

    def op_set_values(self, op):
        d = self.rng.choice([x for x in self.model.of_kind("data") if x.dkind in VALUE_KINDS])
        ent = self.ent(d.uid)
        parent = self.ent(d.parent)
        self.counter += 1
        spec, exp = gen.data_spec(parent, d.dkind, d.assoc, self.rng, tag=self.counter)
        op.update(cls=d.cls, target=d.uid, kind=d.dkind)
        fp = self.last_footprint
        fp["content"].add("Data/" + br(d.uid))
        fp["any_type"] = True
        ent.values = spec["values"]
        d.values = canon(exp)

    def op_edit_vertices(self, op):
        """Move an object's vertices: by assigning a new array, or by the read / edit-in-place / assign-back idiom."""
        objs = [o for o in self.model.of_kind("object") if o.cls in ("Points", "Curve", "Surface", "IntegratorPoints", "AirborneMagnetics", "NeighbourhoodSurface")]
        if not objs:
            raise ExpectedRefusal("no vertex object")
        o = self.rng.choice(objs)
        obj = self.ent(o.uid)
        how = self.rng.choice(["new-array", "in-place"])
        op.update(cls=o.cls, target=o.uid, how=how)
        if obj.vertices is None:
            raise ExpectedRefusal("object without vertices (left behind by a failed creation)")
        self.last_footprint["content"].add(path_of(o))
        if how == "in-place":
            v = obj.vertices
            v[:, 2] += 7.0
            obj.vertices = v
        else:
            obj.vertices = np.asarray(obj.vertices) + np.array([0.0, 3.0, 0.0])
        self.rec.see("vertex-edits:" + how)

    def op_set_parts(self, op):
        """Re-segment a curve through its part labels (the cells follow from them)."""
        objs = [o for o in self.model.of_kind("object") if o.cls in ("Curve",) and o.dkind != "auto"]
        if not objs:
            raise ExpectedRefusal("no curve")
        o = self.rng.choice(objs)
        obj = self.ent(o.uid)
        nv = obj.n_vertices or 0
        if nv < 4 or any(self.model.nodes[c].assoc == "CELL" for c in self.model.children(o.uid)):
            raise ExpectedRefusal("too short, or carries cell data (its length follows the cells)")
        cut = self.rng.randint(2, nv - 2)
        labels = np.array([0] * cut + [1] * (nv - cut), dtype="int32")
        if self.rng.random() < 0.3 and nv - cut >= 4:
            labels[cut + 2:] = 2
        op.update(cls=o.cls, target=o.uid, labels=labels.tolist())
        self.last_footprint["content"].add(path_of(o))
        obj.parts = labels
        cells = [[i, i + 1] for i in range(nv - 1) if labels[i] == labels[i + 1]]
        o.expect_arrays["cells"] = canon(np.asarray(cells, dtype="uint32"))
        self.rec.see("parts-assigned")

    def op_remove_many(self, op):
        """One parent.remove_children call with several children, of different kinds where possible; sometimes the call is
        `parent.remove_children(parent.children)` -- everything under it, handing over the list the getter returned."""
        def plain_kids(n):
            return [c for c in self.model.children(n.uid) if self.model.nodes[c].dkind != "auto"]

        parents = [g for g in self.model.of_kind("group", "object") + [self.model.nodes[self.model.root]] if len(plain_kids(g)) >= 2]
        if not parents:
            raise ExpectedRefusal("no parent with two children")
        g = self.rng.choice(parents)
        kids = plain_kids(g)
        everything = g.uid != self.model.root and len(kids) == len(self.model.children(g.uid)) and self.rng.random() < (0.6 if g.kind == "object" else 0.3)
        by_kind = {}
        for c in kids:
            by_kind.setdefault(self.model.nodes[c].kind, []).append(c)
        chosen = [self.rng.choice(v) for v in by_kind.values()]
        if len(chosen) < 2:
            chosen = self.rng.sample(kids, 2)
        self.rng.shuffle(chosen)
        if everything:
            chosen = list(kids)
        victims = []
        for c in chosen:
            sub = self.model.subtree(c)
            if any(not self.model.nodes[v].flags.get("allow_delete", True) for v in sub):
                raise ExpectedRefusal("protected member")
            victims += sub
        op.update(cls=g.cls, target=g.uid, via="parent", removed_children=len(chosen), kinds=sorted({self.model.nodes[c].kind for c in chosen}), victims=len(victims), idiom="children-list" if everything else "new-list")
        op["op"] = "remove"
        fp = self.last_footprint
        fp["delete"].update(path_of(self.model.nodes[v]) for v in victims)
        fp["links"].add(path_of(g) if g.uid != self.model.root else "Groups/" + br(g.uid))
        fp["any_type"] = True
        if g.kind == "object":
            fp["content"].add("Objects/" + br(g.uid))
        ents = [self.ent(c) for c in chosen]
        parent = self.ent(g.uid)
        for v in victims:
            self.refs.pop(v, None)
        if everything:
            parent.remove_children(parent.children)
            self.rec.see("remove-children-of-own-list:" + g.kind)
        else:
            parent.remove_children(ents)
        del ents
        for v in victims:
            vn = self.model.nodes.pop(v)
            self.model.removed.add(v)
            self.pending_victims.add(path_of(vn))
            self.parent_removed.add(path_of(vn))
        if g.kind == "object":
            if everything:
                g.pgs.clear()
            for pgname in list(g.pgs):
                if any(u in victims for u in g.pgs[pgname]):
                    g.pgs[pgname] = [u for u in g.pgs[pgname] if u not in victims]
                    if not g.pgs[pgname]:
                        del g.pgs[pgname]
        op["removed"] = victims
        op["target"] = chosen[0]
        self.rec.see("multi-child-removals:" + "+".join(op["kinds"]))

    def op_foreign_pg(self, op):
        """Hand a property group to `remove_children` of an object that does not own it: whatever the answer (nothing happens,
        or a refusal), the owner keeps its group -- live and in the file."""
        owners = [o for o in self.model.of_kind("object") if o.pgs]
        others = self.model.of_kind("object")
        if not owners or len(others) < 2:
            raise ExpectedRefusal("no foreign property group")
        a = self.rng.choice(owners)
        b = self.rng.choice([o for o in others if o.uid != a.uid])
        name = self.rng.choice(sorted(a.pgs))
        op.update(cls=b.cls, target=b.uid, owner=a.uid, pg=name)
        pg = self.ent(a.uid).get_property_group(name)[0]
        try:
            self.ent(b.uid).remove_children([pg])
        except (ValueError, TypeError, AttributeError, KeyError) as exc:
            self.rec.see("foreign-pg-refused:" + type(exc).__name__)
        self.rec.see("foreign-pg-removals")

    def pick_any(self, kinds=("object", "group", "data")):
        if self.force_kinds:
            forced = [n for n in self.model.of_kind(*self.force_kinds) if n.dkind != "auto"]
            if forced:
                return self.rng.choice(forced)
        return self.rng.choice([n for n in self.model.of_kind(*kinds)])

    def op_rename(self, op):
        n = self.pick_any()
        if n.dkind in ("auto", "comments"):
            raise ExpectedRefusal("name is the class key of this child")
        new = self.new_name("r")
        op.update(cls=n.cls, target=n.uid, name=new)
        self.last_footprint["content"].add(path_of(n))
        self.last_footprint["any_type"] = n.kind == "data"
        self.ent(n.uid).name = new
        n.name = new

    def op_flag(self, op):
        n = self.pick_any()
        flag = self.rng.choice(FLAGS)
        val = self.rng.random() < 0.5
        op.update(cls=n.cls, target=n.uid, flag=flag, value=val)
        self.last_footprint["content"].add(path_of(n))
        self.last_footprint["any_type"] = n.kind == "data"
        setattr(self.ent(n.uid), flag, val)
        n.flags[flag] = val

    def op_type_rename(self, op):
        """Rename/describe the (shared) type of an entity: only that type node may change."""
        n = self.pick_any()
        e = self.ent(n.uid)
        t = e.entity_type
        new = f"type{self.counter}_{self.rng.choice(NAMES)}"
        self.counter += 1
        which = self.rng.choice(["name", "description"])
        op.update(cls=n.cls, target=n.uid, type_uid=str(t.uid), attr=which, value=new)
        self.last_footprint["types"] = {str(t.uid)}
        setattr(t, which, new)
        self.type_edits = getattr(self, "type_edits", {})
        self.type_edits.setdefault(str(t.uid), {})[which] = new

    def op_metadata(self, op):
        n = self.pick_any(("object", "group"))
        if n.cls in NO_METADATA:
            raise ExpectedRefusal("class manages its own metadata")
        val = {"k%d" % self.rng.randint(0, 3): self.rng.choice([1, 2.5, "txt", [1, 2]]), "uid": uuid.uuid4()}
        op.update(cls=n.cls, target=n.uid)
        self.last_footprint["content"].add(path_of(n))
        self.ent(n.uid).metadata = val
        n.meta = dict(n.meta or {})
        n.meta.update({k: canon(v) for k, v in val.items()})

    def op_move(self, op):
        n = self.pick_any(("object", "group"))
        objs = [o for o in self.model.of_kind("object") if o.uid != n.uid]
        if objs and not self.script and self.rng.random() < 0.1:
            # an object is not a place for groups or objects: the assignment is not taken (the library warns) and nothing moves
            o = self.rng.choice(objs)
            op.update(cls=n.cls, target=n.uid, to=o.uid, frm=n.parent, expect="not-taken")
            op["op"] = "move_under_object"
            self.ent(n.uid).parent = self.ent(o.uid)
            self.rec.see("moves-under-an-object-not-taken")
            return
        targets = [self.model.root] + [g.uid for g in self.model.of_kind("group")]
        targets = [t for t in targets if t != n.parent and not self.model.is_descendant(t, n.uid)]
        if self.rng.random() < 0.15:
            targets = [n.parent]  # assigning the current parent again is legal and must change nothing
        if not targets:
            raise ExpectedRefusal("no target")
        t = self.rng.choice(targets)
        if t != n.parent and any(self.model.nodes[c].name == n.name for c in self.model.children(t)):
            raise ExpectedRefusal("a sibling with this name already lives there (the driver keeps sibling names distinct)")
        op.update(cls=n.cls, target=n.uid, to=t, frm=n.parent)
        fp = self.last_footprint
        fp["links"].update({"Groups/" + br(t), "Groups/" + br(n.parent)})
        fp["content"].add(path_of(n))
        self.ent(n.uid).parent = self.ent(t)
        n.parent = t

    def op_move_data(self, op):
        """Re-parent a data entity to another object that can hold it (same element count)."""
        cands = [d for d in self.model.of_kind("data") if d.dkind in VALUE_KINDS]
        if not cands:
            raise ExpectedRefusal("no data")
        d = self.rng.choice(cands)
        src = self.ent(d.parent)
        n = gen.n_for(src, d.assoc) if d.assoc in ("VERTEX", "CELL") else None
        targets = []
        for o in self.model.of_kind("object"):
            if o.uid == d.parent:
                continue
            e = self.ent(o.uid)
            if d.assoc == "OBJECT" or (gen.n_for(e, d.assoc) == n and n):
                if not any(self.model.nodes[c].name == d.name for c in self.model.children(o.uid)):
                    targets.append(o)
        if not targets:
            raise ExpectedRefusal("no compatible object")
        t = self.rng.choice(targets)
        op.update(cls=d.cls, target=d.uid, to=t.uid, frm=d.parent, in_pgs=self._pg_count(d))
        fp = self.last_footprint
        fp["links"].update({"Objects/" + br(t.uid), "Objects/" + br(d.parent)})
        fp["content"].update({path_of(d), "Objects/" + br(d.parent)})
        fp["any_type"] = True
        self.ent(d.uid).parent = self.ent(t.uid)
        old = self.model.nodes[d.parent]
        for pgname in list(old.pgs):
            if d.uid in old.pgs[pgname]:
                old.pgs[pgname].remove(d.uid)
                if not old.pgs[pgname]:
                    del old.pgs[pgname]
        d.parent = t.uid

    def op_add_data_fail(self, op):
        """A write that fails half-way (h5py rejects the compression level): the file must stay valid."""
        o = self.rng.choice(self.model.of_kind("object"))
        obj = self.ent(o.uid)
        assoc = self.rng.choice(gen.associations_for(obj))
        if assoc == "OBJECT":
            raise ExpectedRefusal("no array association")
        name = self.new_name("bad")
        spec, _exp = gen.data_spec(obj, "float", assoc, self.rng, tag=self.counter)
        op.update(cls=o.cls, target=o.uid, name=name, expect="raises")
        try:
            obj.add_data({name: spec}, compression=12)
        except Exception as exc:  # noqa: BLE001
            op["raised_expected"] = type(exc).__name__
            self.rec.see("failed-writes")
        else:
            self.rec.see("failed-writes-accepted")
        for c in obj.children:
            if not snap._is_pg(c) and str(c.uid) not in self.model.nodes:
                cn = Node(str(c.uid), "data", type(c).__name__, o.uid, c.name)
                cn.dkind = "auto"
                self.model.nodes[cn.uid] = cn

    def op_half_write(self, op):
        """An operation the library accepts, starts to store and then abandons with an exception: metadata that cannot be
        serialised (a set, a numpy integer) handed to a creation or to the setter.  The exception is the answer to the user;
        the file written so far -- and at every later close -- must still obey the layout.  The model follows the live view."""
        bad = self.rng.choice([{"tags": {1, 2}}, {"count": np.int64(3)}, {"when": object()}])
        route = self.rng.choice(["object", "data", "data", "setter"])
        objs = self.model.of_kind("object")
        if route != "object" and not objs:
            route = "object"
        op.update(route=route, expect="raises")
        from geoh5py.objects import Points

        parent_uid = None
        try:
            if route == "object":
                parent_uid = self.pick_container()
                op.update(cls="Points", target=parent_uid)
                Points.create(self.ws, parent=self.ent(parent_uid), name=self.new_name("hw"), vertices=np.array([[0.0, 1.0, 2.0], [1.0, 1.0, 2.0]]), metadata=bad)
            elif route == "data":
                o = self.rng.choice(objs)
                parent_uid = o.uid
                obj = self.ent(o.uid)
                assoc = self.rng.choice([a for a in gen.associations_for(obj) if a != "OBJECT"] or ["OBJECT"])
                if assoc == "OBJECT":
                    raise ExpectedRefusal("no array association")
                spec, _ = gen.data_spec(obj, "float", assoc, self.rng, tag=self.counter)
                spec["metadata"] = bad
                op.update(cls=o.cls, target=o.uid)
                obj.add_data({self.new_name("hw"): spec})
            else:
                o = self.rng.choice(objs)
                op.update(cls=o.cls, target=o.uid)
                if any(x in o.cls for x in ("Receivers", "Transmitters", "Electrode", "BaseStations")):
                    raise ExpectedRefusal("survey metadata is structured")
                try:
                    self.ent(o.uid).metadata = bad
                finally:
                    # the user's recovery: the rejected value is taken back (it would make every later write of this entity fail)
                    self.ent(o.uid).metadata = None
                    o.meta = None
        except ExpectedRefusal:
            raise
        except Exception as exc:  # noqa: BLE001
            op["raised_expected"] = type(exc).__name__
            self.rec.see("half-written-operations")
            self.rec.see("half-write:" + route)
        else:
            self.rec.see("half-write-accepted:" + route)
        if parent_uid is not None:
            for c in self.ent(parent_uid).children:
                if not snap._is_pg(c) and str(c.uid) not in self.model.nodes:
                    cn = Node(str(c.uid), kind_of(c), type(c).__name__, parent_uid, c.name)
                    cn.dkind = "auto"
                    self.model.nodes[cn.uid] = cn
                    op["leftover"] = cn.uid
                    c.metadata = None  # same recovery on the entity the failed creation left behind
                    self.rec.see("half-write-leftovers")

    def _learn_copy(self, src_uid, new_ent, parent_uid, with_children, model=None):
        """Mirror a copy in the model; children are matched by name and class under the copy."""
        m = self.model
        src = m.nodes[src_uid]
        n = Node(str(new_ent.uid), src.kind, src.cls, parent_uid, src.name)
        n.flags, n.values, n.assoc, n.meta, n.dkind = dict(src.flags), src.values, src.assoc, src.meta, src.dkind
        m.nodes[n.uid] = n
        mapping = {src_uid: n.uid}
        if with_children and src.kind in ("object", "group"):
            live_children = [c for c in new_ent.children if not snap._is_pg(c)]
            used = set()
            for cu in m.children(src_uid):
                cs = m.nodes[cu]
                want_sig = self._model_sig(cu)
                match = [c for c in live_children if c.name == cs.name and id(c) not in used and kind_of(c) == cs.kind]
                if len(match) > 1:
                    # siblings sharing a name (copies keep names): tell them apart by subtree structure
                    exact = [c for c in match if self._live_sig(c) == want_sig]
                    match = exact or match
                if not match:
                    self.rec.fail(f"{self.prop}.copy-child-missing", op="copy", cls=src.cls, attr="stale-node-of-parent-removal" if cu in self.stale_reuse else cs.cls, detail=f"copy of {src.cls} lacks child named {cs.name!r} ({cs.cls})")
                    continue
                used.add(id(match[0]))
                mapping.update(self._learn_copy(cu, match[0], n.uid, True))
            if src.kind == "object":
                for pgname, members in src.pgs.items():
                    n.pgs[pgname] = [mapping[x] for x in members if x in mapping]
        return mapping

    def _model_sig(self, uid):
        n = self.model.nodes[uid]
        return (n.name, n.kind, tuple(sorted(self._model_sig(c) for c in self.model.children(uid))))

    def _live_sig(self, e):
        kids = [c for c in (getattr(e, "children", None) or []) if not snap._is_pg(c)]
        return (e.name, kind_of(e), tuple(sorted(self._live_sig(c) for c in kids)))

    def op_copy(self, op):
        n = self.pick_any()
        if n.dkind in ("auto", "comments"):
            raise ExpectedRefusal("auto child")
        with_children = self.rng.random() < 0.8
        if n.kind == "data":
            targets = [n.parent]
        else:
            targets = [self.model.root] + [g.uid for g in self.model.of_kind("group") if not self.model.is_descendant(g.uid, n.uid)]
        t = self.rng.choice(targets)
        if len(self.model.subtree(n.uid)) > 25:
            raise ExpectedRefusal("subtree too large")
        op.update(cls=n.cls, target=n.uid, to=t, children=with_children)
        fp = self.last_footprint
        fp["create"], fp["any_type"] = True, True
        fp["links"].add(path_of(self.model.nodes[t]) if t != self.model.root else "Groups/" + br(t))
        src = self.ent(n.uid)
        extra = {}
        if n.kind == "data" or any(self.model.nodes[c].name == n.name for c in self.model.children(t)):
            # a second child with the same name under one parent would make name look-ups (and the matching of the
            # children of a later copy of that parent) ambiguous
            extra["name"] = self.new_name("c")
            op["name"] = extra["name"]
        new = src.copy(parent=self.ent(t), copy_children=with_children, **extra)
        if new is None:
            self.rec.fail(f"{self.prop}.copy-returns-none", op="copy", cls=n.cls, detail=str(op))
            return
        self.remember(new)
        op["uid"] = str(new.uid)
        self.rec.check(f"{self.prop}.copy-fresh-uid", str(new.uid) != n.uid and str(new.uid) not in self.model.nodes, op="copy", cls=n.cls, attr="uid", detail="same-workspace copy reused an identifier in use")
        self._learn_copy(n.uid, new, t, with_children)
        if "name" in extra:
            self.model.nodes[str(new.uid)].name = extra["name"]

    def op_copy_out(self, op):
        n = self.pick_any(("object", "group"))
        if len(self.model.subtree(n.uid)) > 25:
            raise ExpectedRefusal("subtree too large")
        op.update(cls=n.cls, target=n.uid)
        self.last_footprint["any_type"] = False
        src = self.ent(n.uid)
        if n.kind == "object" and any(n.pgs.values()) and (getattr(self, "force_precopy", False) or self.rng.random() < 0.5):
            # one grouped child travels on its own first: its identifier is then taken in the target workspace
            member = self.rng.choice(sorted({u for mem in n.pgs.values() for u in mem}))
            from geoh5py.objects import Points

            child = self.ent(member)
            try:
                cnt = len(child.values) if hasattr(child.values, "__len__") and not isinstance(child.values, str) else 1
                host = Points.create(self.ws2, vertices=np.zeros((max(cnt, 1), 3)), name=self.new_name("host"))
                child.copy(parent=host)
                op["precopied"] = member
                self.rec.see("copy-out-with-precopied-child")
            except Exception as exc:  # noqa: BLE001
                from .core import exc_origin

                if not exc_origin(exc)[0]:
                    raise
                self.rec.see("precopy-refused")
        new = src.copy(parent=self.ws2.root, copy_children=True)
        self.copied_out += 1
        op["uid"] = None if new is None else str(new.uid)

    def _learn_live(self, e, parent_uid):
        """Take an entity the library built (a clip, a conversion) into the model as found: existence, kind and place are
        asserted from now on, its content only through the live-vs-file clauses."""
        n = Node(str(e.uid), kind_of(e), type(e).__name__, parent_uid, e.name)
        n.dkind = "auto"
        self.model.nodes[n.uid] = n
        if n.kind == "object":
            for pg in getattr(e, "property_groups", None) or []:
                n.pgs[pg.name] = [str(u) for u in (pg.properties or [])]
        for c in getattr(e, "children", None) or []:
            if not snap._is_pg(c):
                self._learn_live(c, n.uid)

    def op_clip(self, op):
        """copy_from_extent of an object or of a group (nested groups, some of them outside the box), into this workspace or
        into the second one.  The source side must stay as it is; what the clip created is learned from the live view."""
        cands = [n for n in self.model.of_kind("object", "group") if len(self.model.subtree(n.uid)) <= 25]
        if not cands:
            raise ExpectedRefusal("nothing to clip")
        nested = [c for c in cands if c.kind == "group" and any(self.model.nodes[u].kind == "group" for u in self.model.children(c.uid))]
        n = self.rng.choice(nested) if nested and self.rng.random() < 0.5 else self.rng.choice(cands)
        sub = [self.model.nodes[u] for u in self.model.subtree(n.uid)]
        if any(x.cls == "GeoImage" for x in sub):
            raise ExpectedRefusal("clipping an image is a conversion through temporary grids, not a selection")
        if any(not x.flags.get("allow_delete", True) for x in sub):
            raise ExpectedRefusal("protected member: a group clip discards empty copies by removing them")
        e = self.ent(n.uid)
        try:
            ext = e.extent
        except Exception:  # noqa: BLE001
            ext = None
        if ext is None:
            raise ExpectedRefusal("no extent")
        lo, hi = np.asarray(ext[0], dtype=float), np.asarray(ext[1], dtype=float)
        mid = (lo + hi) / 2.0
        style = self.rng.choice(["low-half", "high-half", "all", "corner", "slab"])
        if style == "low-half":
            box = [lo - 1.0, np.r_[mid[0], hi[1:] + 1.0]]
        elif style == "high-half":
            box = [np.r_[lo[0] - 1.0, mid[1], lo[2] - 1.0], hi + 1.0]
        elif style == "all":
            box = [lo - 1.0, hi + 1.0]
        elif style == "corner":
            box = [lo - 1.0, mid + 1e-3]
        else:
            box = [np.r_[lo[0] - 1.0, mid[1] - 0.4, lo[2] - 1.0], np.r_[hi[0] + 1.0, mid[1] + 0.4, hi[2] + 1.0]]
        dims = self.rng.choice([2, 3])
        box = np.array([b[:dims] for b in box])
        inverse = self.rng.random() < 0.25
        out = self.ws2 is not None and self.rng.random() < 0.45
        if out:
            t, target = None, self.ws2.root
        else:
            t = self.rng.choice([self.model.root] + [g.uid for g in self.model.of_kind("group") if not self.model.is_descendant(g.uid, n.uid)])
            target = self.ent(t)
        name = self.new_name("clip")
        op.update(cls=n.cls, target=n.uid, to=t, style=style, dims=dims, inverse=inverse, out=out, name=name)
        fp = self.last_footprint
        if out:
            fp["any_type"] = False
        else:
            fp["create"], fp["any_type"] = True, True
            fp["links"].add(path_of(self.model.nodes[t]) if t != self.model.root else "Groups/" + br(t))
        new = e.copy_from_extent(box, parent=target, inverse=inverse, name=name)
        self.rec.see("clips" + (":other-workspace" if out else "") + (":" + n.kind))
        if new is None:
            self.rec.see("clips-returning-nothing")
            op["uid"] = None
            return
        op["uid"] = str(new.uid)
        if out:
            self.copied_out = getattr(self, "copied_out", 0) + 1
        else:
            self.remember(new)
            self._learn_live(new, t)

    def op_remove(self, op):
        n = self.model.nodes.get(getattr(self, "next_victim", None) or "") or self.pick_any()
        self.next_victim = None
        if n.dkind == "auto":
            raise ExpectedRefusal("auto child")
        via = self.rng.choice(["workspace", "parent"])
        if not n.flags.get("allow_delete", True) and via == "workspace":
            return self._refused_remove(op, n)
        victims = self.model.subtree(n.uid)
        if any(not self.model.nodes[v].flags.get("allow_delete", True) for v in victims[1:]):
            raise ExpectedRefusal("protected descendant: outcome not defined by the property")
        op.update(cls=n.cls, target=n.uid, via=via, victims=len(victims), in_pgs=self._pg_count(n))
        fp = self.last_footprint
        fp["delete"].update(path_of(self.model.nodes[v]) for v in victims)
        fp["links"].add(path_of(self.model.nodes[n.parent]) if n.parent != self.model.root else "Groups/" + br(n.parent))
        fp["any_type"] = True
        if n.kind == "data":
            fp["content"].add("Objects/" + br(n.parent))
        e = self.ent(n.uid)
        p = self.ent(n.parent)
        for v in victims:
            self.refs.pop(v, None)
        if via == "workspace":
            self.ws.remove_entity(e)
        else:
            p.remove_children([e])
        del e
        for v in victims:
            vn = self.model.nodes.pop(v)
            self.model.removed.add(v)
            self.pending_victims.add(path_of(vn))
            if via == "parent":
                self.parent_removed.add(path_of(vn))
        if n.kind == "data":
            po = self.model.nodes[n.parent]
            for pgname in list(po.pgs):
                if n.uid in po.pgs[pgname]:
                    po.pgs[pgname].remove(n.uid)
                    if not po.pgs[pgname]:
                        del po.pgs[pgname]
        op["removed"] = victims

    def op_remove_partial(self, op):
        """Remove a container one of whose descendants is protected: the library refuses half-way with the documented
        UserWarning.  Whatever it removed before refusing, the file must stay valid; the model follows the live view."""
        conts = [n for n in self.model.of_kind("object", "group") if [c for c in self.model.subtree(n.uid)[1:] if self.model.nodes[c].dkind != "auto"]]
        if not conts:
            raise ExpectedRefusal("no container with children")
        n = self.rng.choice(conts)
        desc = self.rng.choice([c for c in self.model.subtree(n.uid)[1:] if self.model.nodes[c].dkind != "auto"])
        dn = self.model.nodes[desc]
        self.ent(desc).allow_delete = False
        dn.flags["allow_delete"] = False
        victims = self.model.subtree(n.uid)
        op.update(cls=n.cls, target=n.uid, via="workspace", expect="refused", protected=desc)
        fp = self.last_footprint
        fp["delete"].update(path_of(self.model.nodes[v]) for v in victims)
        fp["content"].update(path_of(self.model.nodes[v]) for v in victims)
        fp["any_type"] = True
        e = self.ent(n.uid)
        for v in victims:
            self.refs.pop(v, None)
        try:
            self.ws.remove_entity(e)
            self.rec.fail(f"{self.prop}.protected-removal-accepted", op="remove_partial", cls=n.cls, attr="allow_delete", detail=f"container removed although its descendant {dn.cls} is protected")
        except UserWarning as exc:
            op["refused"] = str(exc)[:80]
            self.rec.see("refused-removals")
            self.rec.see("refused-container-removals")
        del e
        gone = [v for v in victims if self.ws.get_entity(uuid.UUID(v))[0] is None]
        for v in gone:
            vn = self.model.nodes.pop(v)
            self.model.removed.add(v)
            self.pending_victims.add(path_of(vn))
            if vn.kind == "data" and vn.parent in self.model.nodes:
                po = self.model.nodes[vn.parent]
                for pgname in list(po.pgs):
                    if v in po.pgs[pgname]:
                        po.pgs[pgname].remove(v)
                        if not po.pgs[pgname]:
                            del po.pgs[pgname]
        op["removed"] = gone
        # property groups of the surviving objects of that subtree may have gone with the part that was removed
        for v in victims:
            node = self.model.nodes.get(v)
            if node is not None and node.kind == "object":
                live = self.ws.get_entity(uuid.UUID(v))[0]
                node.pgs = {pg.name: [str(x) for x in (pg.properties or [])] for pg in (getattr(live, "property_groups", None) or [])}

    def _pg_count(self, n):
        if n.kind != "data":
            return 0
        po = self.model.nodes[n.parent]
        return sum(1 for members in po.pgs.values() if n.uid in members)

    def _refused_remove(self, op, n):
        op.update(cls=n.cls, target=n.uid, via="workspace", expect="refused")
        op["op"] = "remove_refused"
        e = self.ent(n.uid)
        try:
            self.ws.remove_entity(e)
        except UserWarning as exc:
            op["refused"] = str(exc)[:80]
            self.rec.see("refused-removals")
            return
        self.rec.fail(f"{self.prop}.protected-removal-accepted", op="remove", cls=n.cls, attr="allow_delete", detail=str(op))

    def op_remove_protected(self, op):
        n = self.pick_any(("object", "data", "group"))
        if n.dkind == "auto":
            raise ExpectedRefusal("auto child")
        self.last_footprint["content"].add(path_of(n))
        self.last_footprint["any_type"] = n.kind == "data"
        self.ent(n.uid).allow_delete = False
        n.flags["allow_delete"] = False
        op["protect"] = True
        self._refused_remove(op, n)

    def op_pg_add(self, op):
        hosts = [x for x in self.model.of_kind("object") if self._pg_candidates(x)]
        if not hosts:
            raise ExpectedRefusal("no data that can be grouped")
        o = self.rng.choice(hosts)
        cands = self._pg_candidates(o)
        assoc = self.rng.choice(sorted({c.assoc for c in cands}))
        cands = [c for c in cands if c.assoc == assoc]
        chosen = self.rng.sample(cands, self.rng.randint(1, min(3, len(cands))))
        # groups with members of the same association, and still-empty groups whatever association they were
        # created with (the library accepts data of any association into an explicitly created group)
        existing = [name for name, mem in o.pgs.items() if not mem or self.model.nodes[mem[0]].assoc == assoc] if o.pgs else []
        if existing and self.rng.random() < 0.5:
            name = self.rng.choice(existing)
        else:
            name = self.new_name("pg")
        op.update(cls=o.cls, target=o.uid, pg=name, data=[c.uid for c in chosen])
        self.last_footprint["content"].add("Objects/" + br(o.uid))
        obj = self.ent(o.uid)
        if self.rng.random() < 0.35:
            # the selection is handed over as identifiers (what a by-name search over the workspace returns); identifiers of
            # data that live on other objects are not this object's to group and are skipped
            foreign = [d for d in self.model.of_kind("data") if d.parent != o.uid and d.assoc in ("VERTEX", "CELL")]
            sel = [uuid.UUID(c.uid) for c in chosen] + ([uuid.UUID(self.rng.choice(foreign).uid)] if foreign else [])
            self.rng.shuffle(sel)
            obj.add_data_to_group(sel, name)
            op["by"] = "identifiers"
            self.rec.see("groups-filled-by-identifier" + ("-with-a-foreign-one" if foreign else ""))
        else:
            obj.add_data_to_group([self.ent(c.uid) for c in chosen], name)
        mem = o.pgs.setdefault(name, [])
        for c in chosen:
            if c.uid not in mem:
                mem.append(c.uid)

    def op_pg_add_second(self, op):
        """Put a data entity that already sits in one property group into a second one."""
        objs = [x for x in self.model.of_kind("object") if any(m for m in x.pgs.values())]
        if not objs:
            raise ExpectedRefusal("no grouped data")
        o = self.rng.choice(objs)
        name0 = self.rng.choice(sorted(k for k, m in o.pgs.items() if m))
        member = self.rng.choice(o.pgs[name0])
        name = self.new_name("pg")
        op.update(cls=o.cls, target=o.uid, pg=name, data=[member])
        self.last_footprint["content"].add("Objects/" + br(o.uid))
        self.ent(o.uid).add_data_to_group([self.ent(member)], name)
        o.pgs[name] = [member]
        if not self.script and self.rng.random() < 0.4:
            # a fan: the same data becomes the only member of one more group and joins a group with other members; it is the
            # next entity to be removed (every group it was in loses it, the groups it was alone in go with it)
            name2 = self.new_name("pg")
            self.ent(o.uid).add_data_to_group([self.ent(member)], name2)
            o.pgs[name2] = [member]
            mates = [c for c in self._pg_candidates(o) if c.uid != member and c.assoc == self.model.nodes[member].assoc]
            if mates:
                name3 = self.new_name("pg")
                mate = self.rng.choice(mates)
                self.ent(o.uid).add_data_to_group([self.ent(member), self.ent(mate.uid)], name3)
                o.pgs[name3] = [member, mate.uid]
            self.rec.see("data-fanned-into-several-groups")
            self.next_victim, self.force_next = member, "remove"

    def op_pg_create_empty(self, op):
        o = self.rng.choice(self.model.of_kind("object"))
        obj = self.ent(o.uid)
        assoc = self.rng.choice(["VERTEX", "CELL"])
        name = self.new_name("pge")
        op.update(cls=o.cls, target=o.uid, pg=name, assoc=assoc)
        self.last_footprint["content"].add("Objects/" + br(o.uid))
        if self.rng.random() < 0.5:
            obj.create_property_group(name=name, association=assoc)
        else:
            obj.find_or_create_property_group(name=name, association=assoc)
        o.pgs[name] = []

    def op_pg_remove_data(self, op):
        o = self.rng.choice([x for x in self.model.of_kind("object") if any(m for m in x.pgs.values())])
        name = self.rng.choice(sorted(k for k, m in o.pgs.items() if m))
        victim = self.rng.choice(o.pgs[name])
        op.update(cls=o.cls, target=o.uid, pg=name, data=victim)
        self.last_footprint["content"].add("Objects/" + br(o.uid))
        obj = self.ent(o.uid)
        pg = obj.get_property_group(name)[0]
        pg.remove_properties(self.ent(victim))
        o.pgs[name].remove(victim)
        if not o.pgs[name]:
            del o.pgs[name]

    def op_pg_delete(self, op):
        o = self.rng.choice([x for x in self.model.of_kind("object") if x.pgs])
        name = self.rng.choice(sorted(o.pgs))
        via = self.rng.choice(["workspace", "parent"])
        op.update(cls=o.cls, target=o.uid, pg=name, via=via)
        self.last_footprint["content"].add("Objects/" + br(o.uid))
        obj = self.ent(o.uid)
        pg = obj.get_property_group(name)[0]
        if via == "workspace":
            self.ws.remove_entity(pg)
        else:
            obj.remove_children([pg])
        del o.pgs[name]

    def op_comment(self, op):
        o = self.rng.choice(self.model.of_kind("object", "group"))
        op.update(cls=o.cls, target=o.uid)
        fp = self.last_footprint
        fp["create"], fp["any_type"] = True, True
        fp["links"].add(path_of(o))
        e = self.ent(o.uid)
        e.add_comment(f"comment {self.counter} é", author="verif")
        c = e.comments
        cu = str(c.uid)
        fp["content"].add("Data/" + br(cu))
        if cu not in self.model.nodes:
            cn = Node(cu, "data", type(c).__name__, o.uid, c.name)
            cn.dkind = "comments"
            self.model.nodes[cu] = cn

    def op_add_file(self, op):
        o = self.rng.choice(self.model.of_kind("object", "group"))
        op.update(cls=o.cls, target=o.uid)
        fp = self.last_footprint
        fp["create"], fp["any_type"] = True, True
        fp["links"].add(path_of(o))
        e = self.ent(o.uid)
        blob = bytes(self.rng.randrange(256) for _ in range(self.rng.randint(1, 40)))
        name = f"f{self.counter}.bin"
        self.counter += 1
        d = e.add_file(blob, name=name)
        cn = Node(str(d.uid), "data", type(d).__name__, o.uid, name)
        cn.dkind = "file"
        cn.values = canon(blob)
        self.model.nodes[cn.uid] = cn

    def op_dup_uid(self, op):
        """Explicit request to reuse an identifier in use: must be refused (observed by C06 monitor)."""
        hosts = [o for o in self.model.of_kind("object") if self.model.children(o.uid) or o.pgs]
        if hosts and self.rng.random() < 0.25:
            # a property group asked to take the identifier of a sibling under the same object (a data entity or another group)
            o = self.rng.choice(hosts)
            obj = self.ent(o.uid)
            taken = [str(c.uid) for c in obj.children]
            u = self.rng.choice(taken)
            op.update(cls=o.cls, target=o.uid, collide="sibling", expect="refused")
            op["as"] = "property-group"
            try:
                obj.create_property_group(name=self.new_name("duppg"), uid=uuid.UUID(u))
            except Exception as exc:  # noqa: BLE001
                op["refused"] = f"{type(exc).__name__}"
                self.rec.see("dup-refused:sibling-pg")
                return
            op["accepted"] = u
            self.rec.see("dup-accepted:sibling-pg")
            return
        n = self.pick_any()
        kind = self.rng.choice(["same", "other"])
        op.update(cls=n.cls, target=n.uid, collide=kind)
        from geoh5py.groups import ContainerGroup
        from geoh5py.objects import Points

        parent = self.ent(self.pick_container())
        op["expect"] = "refused"
        if (n.kind == "group") == (kind == "same"):
            maker = lambda: ContainerGroup.create(self.ws, parent=parent, name="dup", uid=uuid.UUID(n.uid))  # noqa: E731
            op["as"] = "group"
        else:
            maker = lambda: Points.create(self.ws, parent=parent, name="dup", vertices=np.zeros((2, 3)), uid=uuid.UUID(n.uid))  # noqa: E731
            op["as"] = "object"
        try:
            made = maker()
        except Exception as exc:  # noqa: BLE001
            op["refused"] = f"{type(exc).__name__}"
            self.rec.see("dup-refused:" + kind)
            return
        op["accepted"] = str(getattr(made, "uid", None))
        self.rec.see("dup-accepted:" + kind)

    def op_reopen(self, op):
        self.close_and_check()
        self.ws.open()
        self.rec.see("reopens")
        self.pending_victims = set()
        for m in self.monitors:
            m.at_reopen(self)

    def op_open_again(self, op):
        """Calling open() on a workspace that is already open is tolerated by the library (warning, no-op)."""
        import warnings as _w

        with _w.catch_warnings():
            _w.simplefilter("ignore")
            if self.rng.random() < 0.5:
                self.ws.open()
            else:
                self.refs.clear()
                with self.ws.open():
                    pass
                # the context manager closed it: open again as the user would (entities are re-loaded)
                self.ws.open()
                self.refs.clear()
                self.pending_victims = set()
                op["via"] = "with"

    def op_gc(self, op):
        self.refs.clear()
        n = gc.collect()
        op["collected"] = n
        self.rec.see("gc-points")

    def op_listing(self, op):
        which = self.rng.choice(["objects", "groups", "data", "types", "all"])
        op["which"] = which
        self.last_footprint["any_type"] = True
        for w in ["objects", "groups", "data", "types"] if which == "all" else [which]:
            _ = getattr(self.ws, w)


class ExpectedRefusal(Exception):
    pass


VALUE_KINDS = ("float", "integer", "boolean", "referenced", "float_nan", "text_object")
NO_METADATA = set()
DEFAULT_WEIGHTS = {
    "mk_group": 2.0,
    "mk_object": 3.0,
    "add_data": 4.0,
    "set_values": 2.0,
    "rename": 1.5,
    "flag": 1.0,
    "metadata": 1.0,
    "type_rename": 0.5,
    "move": 1.5,
    "move_data": 0.8,
    "add_data_fail": 0.0,
    "copy": 1.5,
    "remove": 2.0,
    "pg_add": 1.5,
    "pg_create_empty": 0.4,
    "pg_add_second": 0.4,
    "pg_remove_data": 0.7,
    "pg_delete": 0.5,
    "comment": 0.6,
    "add_file": 0.5,
    "reopen": 1.0,
    "open_again": 0.3,
    "gc": 0.7,
    "listing": 0.7,
    "dup_uid": 0.0,
    "remove_protected": 0.0,
    "remove_partial": 0.0,
    "edit_vertices": 0.8,
    "remove_many": 0.5,
    "foreign_pg": 0.3,
    "mk_deferred": 0.0,
    "half_write": 0.0,
    "clip": 0.0,
    "set_parts": 0.0,
    "copy_out": 0.0,
}


def br(uid: str) -> str:
    return "{" + uid + "}"


def path_of(n: Node) -> str:
    return {"group": "Groups/", "object": "Objects/", "data": "Data/"}[n.kind] + br(n.uid)


def kind_of(e) -> str:
    from geoh5py.data import Data
    from geoh5py.groups import Group

    if isinstance(e, Data):
        return "data"
    if isinstance(e, Group):
        return "group"
    return "object"


# ------------------------------------------------------------------------------------------
# model <-> snapshot comparison shared by C01 / C05 / C11
# ------------------------------------------------------------------------------------------
def compare_model(rec, prop, model: TreeModel, snapshot: dict, where: str, tainted=()):
    """Conservative core: existence, parent, class kind, names, flags, values, pg membership."""
    live_uids = {u for u in snapshot if not u.endswith("#dup")}
    want = set(model.nodes)
    for u in sorted(u for u in snapshot if u.endswith("#dup")):
        rec.fail(f"{prop}.duplicated", op=where, cls=snapshot[u].get("cls", ""), detail=f"uid {u} appears twice in the tree")
    for u in sorted(want - live_uids):
        n = model.nodes[u]
        if n.parent in tainted or u in tainted:
            rec.skipped_tainted += 1
            continue
        rec.fail(f"{prop}.lost", op=where, cls=n.cls, attr=n.kind, detail=f"{n.kind} {n.cls} {n.name!r} ({u}) missing from the {where} tree")
    for u in sorted(live_uids - want):
        r = snapshot[u]
        if r.get("parent") in tainted:
            rec.skipped_tainted += 1
            continue
        clause = f"{prop}.resurrected" if u in model.removed else f"{prop}.extra"
        rec.fail(clause, op=where, cls=r.get("cls", ""), attr="", detail=f"{r.get('cls')} {r.get('attrs', {}).get('name')!r} ({u}) present in the {where} tree but not in the model")
    for u in sorted(want & live_uids):
        n, r = model.nodes[u], snapshot[u]
        if u in tainted:
            rec.skipped_tainted += 1
            continue
        rec.evals[f"{prop}.model"] += 1
        if u != model.root:
            rec.check(f"{prop}.model-parent", r.get("parent") == n.parent, op=where, cls=n.cls, attr="parent", detail=f"{u}: parent {r.get('parent')} expected {n.parent}")
            if n.dkind != "auto":
                rec.check(f"{prop}.model-name", r["attrs"].get("name") == n.name, op=where, cls=n.cls, attr="name", detail=f"{u}: name {r['attrs'].get('name')!r} expected {n.name!r}")
        for f, v in n.flags.items():
            rec.check(f"{prop}.model-flag", r["attrs"].get(f) == v, op=where, cls=n.cls, attr=f, detail=f"{u}: {f}={r['attrs'].get(f)} expected {v}")
        if n.values is not None and n.dkind in VALUE_KINDS + ("file",):
            got = r.get("values")
            rec.check(f"{prop}.model-values", values_equal(got, n.values, n.dkind), op=where, cls=n.cls, attr=n.dkind, detail=f"{u} {n.name!r}: values {short(got)} expected {short(n.values)}")
        if n.meta:
            got = r.get("metadata") or {}
            ok = isinstance(got, dict) and all(meta_equal(got.get(k), v) for k, v in n.meta.items())
            rec.check(f"{prop}.model-metadata", ok, op=where, cls=n.cls, attr="metadata", detail=f"{u}: metadata {short(got)} expected to contain {short(n.meta)}")
        for f, v in n.expect_arrays.items():
            got = (r.get("arrays") or {}).get(f)
            same = got == v or (isinstance(got, dict) and isinstance(v, dict) and got.get("data") == v.get("data") and got.get("shape") == v.get("shape"))
            rec.check(f"{prop}.model-arrays", same, op=where, cls=n.cls, attr=f, detail=f"{u}: {f} {short(got)} expected {short(v)} (as assigned)")
        if n.kind == "object":
            got = {p["name"]: sorted(p["properties"] or []) for p in r.get("pgs", [])}
            exp = {k: sorted(v) for k, v in n.pgs.items()}
            rec.check(f"{prop}.model-pgs", got == exp, op=where, cls=n.cls, attr="property_groups", detail=f"{u}: groups {short(got)} expected {short(exp)}")


def meta_equal(got, want):
    if got == want:
        return True
    if isinstance(got, str) and isinstance(want, str):
        return got.replace("u:", "").strip("{}") == want.replace("u:", "").strip("{}")
    return False


def values_equal(got, want, dkind):
    if got == want:
        return True
    if isinstance(got, dict) and isinstance(want, dict):
        # same numbers under the stored dtype (e.g. bool kept as bool, int32 as int32)
        return got.get("data") == want.get("data") and got.get("shape") == want.get("shape")
    return False


def diff_snapshots(rec, prop, clause, a: dict, b: dict, where, tainted=(), ignore=()):
    """Field-by-field differential of two ApiSnapshots; signature = (clause, where, class, field)."""
    for u in sorted(set(a) | set(b)):
        if u in tainted:
            rec.skipped_tainted += 1
            continue
        ra, rb = a.get(u), b.get(u)
        if ra is None or rb is None:
            r = ra or rb
            if r.get("parent") in tainted:
                rec.skipped_tainted += 1
                continue
            side = "second" if ra is None else "first"
            rec.fail(clause, op=where, cls=r.get("cls", ""), attr="<entity>", detail=f"{r.get('cls')} {r.get('attrs', {}).get('name')!r} ({u}) only in the {side} snapshot")
            continue
        rec.evals[clause] += 1
        if ra == rb:
            continue
        for path, x, y in diff_paths(ra, rb, limit=6):
            field = path.strip("/").split("/")
            fld = "/".join(field[:2]) if field and field[0] in ("attrs", "arrays", "type") else (field[0] if field else "")
            fld = fld.split("[")[0]
            if fld in ignore:
                continue
            rec.fail(clause, op=where, cls=ra.get("cls", ""), attr=fld, detail=f"{u} {path}: {short(x)} != {short(y)}", counted=True)
