"""Shared monitors: ApiSnapshot (public getters only), RawSnapshot (plain h5py, shares no code with
H5Reader), per-node digests and the structural validator of the geoh5 layout (written from
docs/content/geoh5_format)."""
from __future__ import annotations

import hashlib
import json
import uuid

import h5py
import numpy as np

from .core import canon, digest

ARRAY_FIELDS = (
    "vertices",
    "cells",
    "octree_cells",
    "u_cell_delimiters",
    "v_cell_delimiters",
    "z_cell_delimiters",
    "layers",
    "prisms",
    "surveys",
    "trace",
)
SKIP_ATTRS = {"uid", "property_groups", "concatenated_attributes", "concatenated_object_ids", "property_group_ids"}


# ==========================================================================================
# ApiSnapshot
# ==========================================================================================
def type_record(et) -> dict:
    rec = {"cls": type(et).__name__, "uid": str(et.uid)}
    for key, attr in getattr(et, "attribute_map", {}).items():
        if attr in ("uid",):
            continue
        try:
            rec[attr] = canon(getattr(et, attr))
        except AttributeError:
            continue
        except Exception as exc:  # noqa: BLE001
            rec[attr] = f"<raises {type(exc).__name__}>"
    cm = getattr(et, "color_map", None)
    if cm is not None:
        rec["color_map"] = {"name": getattr(cm, "name", None), "values": canon(getattr(cm, "_values", None))}
    vm = getattr(et, "value_map", None)
    if vm is not None:
        try:
            rec["value_map"] = canon(vm.map)
        except Exception as exc:  # noqa: BLE001
            rec["value_map"] = f"<raises {type(exc).__name__}>"
    return rec


def pg_record(pg) -> dict:
    props = pg.properties
    return {
        "uid": str(pg.uid),
        "name": pg.name,
        "association": canon(pg.association),
        "property_group_type": canon(pg.property_group_type),
        "properties": [] if props is None else [str(p) for p in props],
    }


def entity_record(e, values=True, errors=None) -> dict:
    """Everything the public getters of one entity show."""
    rec = {"cls": type(e).__name__, "uid": str(e.uid)}
    parent = getattr(e, "parent", None)
    rec["parent"] = None if parent is None or parent is e else str(parent.uid)
    attrs = {}
    for key, attr in e.attribute_map.items():
        if attr in SKIP_ATTRS or ":" in attr:
            continue
        try:
            attrs[attr] = canon(getattr(e, attr))
        except AttributeError:
            continue
        except Exception as exc:  # noqa: BLE001
            attrs[attr] = f"<raises {type(exc).__name__}>"
            if errors is not None:
                errors.append((str(e.uid), attr, exc))
    rec["attrs"] = attrs
    arrays = {}
    for name in ARRAY_FIELDS:
        if hasattr(type(e), name):
            try:
                v = getattr(e, name)
            except Exception as exc:  # noqa: BLE001
                arrays[name] = f"<raises {type(exc).__name__}>"
                if errors is not None:
                    errors.append((str(e.uid), name, exc))
                continue
            if v is not None:
                arrays[name] = canon(v)
    rec["arrays"] = arrays
    try:
        rec["metadata"] = canon(e.metadata)
    except Exception as exc:  # noqa: BLE001
        rec["metadata"] = f"<raises {type(exc).__name__}>"
        if errors is not None:
            errors.append((str(e.uid), "metadata", exc))
    if hasattr(type(e), "options"):
        try:
            rec["options"] = canon(e.options)
        except Exception as exc:  # noqa: BLE001
            rec["options"] = f"<raises {type(exc).__name__}>"
    if hasattr(type(e), "values") and values:
        try:
            rec["values"] = canon(e.values)
        except Exception as exc:  # noqa: BLE001
            rec["values"] = f"<raises {type(exc).__name__}: {str(exc)[:80]}>"
            if errors is not None:
                errors.append((str(e.uid), "values", exc))
    if hasattr(type(e), "association"):
        rec["association"] = canon(e.association)
    if hasattr(type(e), "file_name"):
        rec["file_name"] = canon(getattr(e, "file_name", None))
    try:
        rec["type"] = type_record(e.entity_type)
    except Exception as exc:  # noqa: BLE001
        rec["type"] = f"<raises {type(exc).__name__}>"
    pgs = getattr(e, "property_groups", None)
    if pgs:
        rec["pgs"] = sorted((pg_record(pg) for pg in pgs), key=lambda r: r["uid"])
    else:
        rec["pgs"] = []
    children = getattr(e, "children", None)
    if children is not None:
        rec["children"] = sorted(str(c.uid) for c in children if not _is_pg(c))
    return rec


def _is_pg(x):
    return type(x).__name__.endswith("PropertyGroup")


def api_snapshot(ws, values=True, errors=None) -> dict:
    """uid -> record for every entity reachable from root through `children`."""
    out = {}
    root = ws.root
    stack = [root]
    seen = set()
    while stack:
        e = stack.pop()
        if id(e) in seen:
            continue
        seen.add(id(e))
        if _is_pg(e):
            continue
        key = str(e.uid)
        if key in out:
            out[key + "#dup"] = {"cls": type(e).__name__, "duplicate_uid_in_tree": True}
            continue
        out[key] = entity_record(e, values=values, errors=errors)
        for c in getattr(e, "children", None) or []:
            stack.append(c)
    return out


def header_snapshot(ws) -> dict:
    return {
        "name": ws.name,
        "version": canon(ws.version),
        "ga_version": canon(ws.ga_version),
        "distance_unit": canon(ws.distance_unit),
        "contributors": canon(np.asarray(ws.contributors).tolist()),
    }


# ==========================================================================================
# RawSnapshot
# ==========================================================================================
def _attr_val(v):
    if isinstance(v, np.ndarray):
        if v.dtype.names:
            return {"compound": [(n, v.dtype[n].str) for n in v.dtype.names], "data": canon(v.tolist())}
        return {"array": v.dtype.str if v.dtype != object else "O", "data": canon(v.tolist())}
    if isinstance(v, np.void):
        return {"compound": [(n, v.dtype[n].str) for n in v.dtype.names], "data": canon(v.tolist())}
    if isinstance(v, (np.integer,)):
        return {"int": v.dtype.str, "v": int(v)}
    if isinstance(v, (np.floating,)):
        return {"float": v.dtype.str, "v": canon(float(v))}
    if isinstance(v, bytes):
        return {"bytes": canon(v)}
    return canon(v)


def _attrs(obj) -> dict:
    out = {}
    for k in obj.attrs:
        try:
            out[k] = _attr_val(obj.attrs[k])
        except Exception as exc:  # noqa: BLE001
            out[k] = f"<unreadable {type(exc).__name__}>"
    return out


def _dataset(ds) -> dict:
    try:
        arr = ds[()]
    except Exception as exc:  # noqa: BLE001
        return {"unreadable": type(exc).__name__}
    if isinstance(arr, np.ndarray):
        if arr.dtype == object or arr.dtype.names and any(arr.dtype[n] == object for n in arr.dtype.names):
            h = hashlib.sha1(json.dumps(canon(arr.tolist()), default=str).encode()).hexdigest()
        elif arr.dtype.kind == "V" and not arr.dtype.names:
            h = hashlib.sha1(arr.tobytes()).hexdigest()
        else:
            h = hashlib.sha1(np.ascontiguousarray(arr).tobytes()).hexdigest()
        dt = [(n, arr.dtype[n].str) for n in arr.dtype.names] if arr.dtype.names else (arr.dtype.str if arr.dtype != object else "O")
        rec = {"dtype": dt, "shape": list(arr.shape), "sha": h}
    else:
        rec = {"dtype": type(arr).__name__, "shape": [], "sha": hashlib.sha1(repr(arr).encode()).hexdigest()}
    at = _attrs(ds)
    if at:
        rec["attrs"] = at
    return rec


def addr(obj) -> int:
    return h5py.h5o.get_info(obj.id).addr


def refcount(obj) -> int:
    return h5py.h5o.get_info(obj.id).rc


def _links(grp) -> dict:
    out = {}
    for name in grp:
        link = grp.get(name, getlink=True)
        rec = {"link": type(link).__name__}
        if isinstance(link, h5py.HardLink):
            try:
                rec["addr"] = addr(grp[name])
            except Exception:  # noqa: BLE001
                rec["addr"] = None
        out[name] = rec
    return out


def _generic_group(grp, depth=0) -> dict:
    rec = {"attrs": _attrs(grp), "datasets": {}, "groups": {}}
    for name in grp:
        link = grp.get(name, getlink=True)
        if not isinstance(link, h5py.HardLink):
            rec["groups"][name] = {"link": type(link).__name__}
            continue
        item = grp[name]
        if isinstance(item, h5py.Dataset):
            rec["datasets"][name] = _dataset(item)
        elif depth < 4:
            rec["groups"][name] = _generic_group(item, depth + 1)
    return rec


def node_record(node) -> dict:
    rec = {"attrs": _attrs(node), "datasets": {}, "children": {}, "other": {}, "addr": addr(node), "rc": refcount(node)}
    for name in node:
        link = node.get(name, getlink=True)
        if not isinstance(link, h5py.HardLink):
            rec["other"][name] = {"link": type(link).__name__}
            continue
        item = node[name]
        if isinstance(item, h5py.Dataset):
            rec["datasets"][name] = _dataset(item)
        elif name in ("Data", "Groups", "Objects"):
            rec["children"][name] = _links(item)
        elif name == "Type":
            rec["type"] = {"link": type(link).__name__, "addr": addr(item), "id": _attrs(item).get("ID")}
        elif name == "PropertyGroups":
            rec["pgs"] = {pg: _attrs(item[pg]) for pg in item}
        elif name == "Concatenated Data":
            rec["concat"] = _generic_group(item)
        else:
            rec["other"][name] = _generic_group(item)
    return rec


def raw_snapshot(h5) -> dict:
    """Independent reading of a geoh5 file (h5py.File handle or path)."""
    close = False
    if not isinstance(h5, h5py.File):
        h5 = h5py.File(h5, "r")
        close = True
    try:
        names = list(h5)
        out = {"top": names, "nodes": {}, "types": {}, "containers": {}}
        if not names:
            return out
        base = names[0]
        proj = h5[base]
        out["base"] = base
        out["attrs"] = _attrs(proj)
        out["members"] = sorted(proj)
        rl = proj.get("Root", getlink=True)
        if rl is not None:
            out["root"] = {"link": type(rl).__name__}
            if isinstance(rl, h5py.HardLink):
                out["root"]["addr"] = addr(proj["Root"])
                out["root"]["id"] = _attrs(proj["Root"]).get("ID")
        for kind in ("Data", "Groups", "Objects"):
            if kind not in proj:
                continue
            out["containers"][kind] = sorted(proj[kind])
            for name in proj[kind]:
                link = proj[kind].get(name, getlink=True)
                if not isinstance(link, h5py.HardLink):
                    out["nodes"][f"{kind}/{name}"] = {"link": type(link).__name__}
                    continue
                out["nodes"][f"{kind}/{name}"] = node_record(proj[kind][name])
        if "Types" in proj:
            for tk in proj["Types"]:
                out["containers"]["Types/" + tk] = sorted(proj["Types"][tk])
                for name in proj["Types"][tk]:
                    t = proj["Types"][tk][name]
                    rec = {"attrs": _attrs(t), "datasets": {}, "addr": addr(t)}
                    for m in t:
                        if isinstance(t[m], h5py.Dataset):
                            rec["datasets"][m] = _dataset(t[m])
                    out["types"][f"{tk}/{name}"] = rec
        return out
    finally:
        if close:
            h5.close()


def node_digests(raw: dict) -> dict:
    """path -> {'content': sha(attrs, datasets, pgs, concat, type id), 'links': sha(child link names)}"""
    out = {}
    for path, rec in raw["nodes"].items():
        content = {k: rec.get(k) for k in ("attrs", "datasets", "pgs", "concat", "other")}
        content["type"] = (rec.get("type") or {}).get("id")
        links = {k: sorted(v) for k, v in (rec.get("children") or {}).items()}
        out[path] = {"content": digest(content), "links": digest(links)}
    for path, rec in raw["types"].items():
        out["Types/" + path] = {"content": digest({"attrs": rec["attrs"], "datasets": rec["datasets"]}), "links": ""}
    out["<project>"] = {"content": digest(raw.get("attrs")), "links": digest({k: v for k, v in raw.get("containers", {}).items()})}
    return out


# ==========================================================================================
# Structural validator (C02), written from the format documentation
# ==========================================================================================
def _uid_name_ok(name: str) -> bool:
    if not (name.startswith("{") and name.endswith("}")):
        return False
    try:
        uuid.UUID(name)
        return True
    except ValueError:
        return False


def _id_of(rec) -> str | None:
    v = rec.get("attrs", {}).get("ID")
    return v if isinstance(v, str) else None


import re as _re

_PATH_RE = _re.compile(r"(Data|Groups|Objects)/\{[0-9a-fA-F-]{36}\}")
KIND_OF_CONTAINER = {"Data": "Data", "Groups": "Groups", "Objects": "Objects"}
TYPE_CONTAINER = {"Data": "Data types", "Groups": "Group types", "Objects": "Object types"}


def validate_raw(raw: dict) -> list[tuple[str, str, str, str]]:
    """Return [(rule, node-kind, detail, subject path)] for every broken layout rule."""
    bad = []

    def add(rule, kind, detail):
        m = _PATH_RE.search(str(detail))
        bad.append((rule, kind, detail, m.group(0) if m else ""))

    if len(raw.get("top", [])) != 1:
        add("V1.one-project", "project", f"top-level members {raw.get('top')}")
        return bad
    members = set(raw.get("members", []))
    for need in ("Data", "Groups", "Objects", "Types"):
        if need not in members:
            add("V1.container-missing", "project", need)
    for need in ("Types/Data types", "Types/Group types", "Types/Object types"):
        if need not in raw.get("containers", {}):
            add("V1.type-container-missing", "project", need)
    root = raw.get("root")
    if root is None:
        add("V1.root-missing", "project", "no Root link")
    elif root.get("link") != "HardLink":
        add("V1.root-not-hard", "project", str(root))
    nodes = raw["nodes"]
    by_addr = {}
    for path, rec in nodes.items():
        if "addr" in rec:
            by_addr.setdefault(rec["addr"], []).append(path)
    if root and root.get("link") == "HardLink":
        owners = by_addr.get(root.get("addr"), [])
        if not any(p.startswith("Groups/") for p in owners):
            add("V1.root-not-a-group-node", "project", f"Root address matches {owners}")
    # V2 names / IDs / uniqueness
    seen_uid = {}
    for path, rec in nodes.items():
        kind, name = path.split("/", 1)
        if "link" in rec and "attrs" not in rec:
            add("V2.flat-not-hard-link", kind, path)
            continue
        if not _uid_name_ok(name):
            add("V2.name-not-uid", kind, path)
        ident = _id_of(rec)
        if ident is None or ident.lower() != name.lower():
            add("V2.id-mismatch", kind, f"{path} ID={ident}")
        seen_uid.setdefault(name.lower(), []).append(path)
    for u, paths in seen_uid.items():
        if len(paths) > 1:
            add("V2.uid-twice", "/".join(sorted({p.split('/')[0] for p in paths})), f"{paths}")
    type_seen = {}
    for path, rec in raw["types"].items():
        tk, name = path.split("/", 1)
        if not _uid_name_ok(name):
            add("V2.type-name-not-uid", tk, path)
        ident = _id_of(rec)
        if ident is None or ident.lower() != name.lower():
            add("V2.type-id-mismatch", tk, f"{path} ID={ident}")
        type_seen.setdefault(name.lower(), []).append(path)
    for u, paths in type_seen.items():
        if len(paths) > 1:
            add("V2.type-uid-twice", "types", f"{paths}")
    # V3 Type links
    type_addr = {rec["addr"]: p for p, rec in raw["types"].items()}
    for path, rec in nodes.items():
        if "attrs" not in rec:
            continue
        kind = path.split("/", 1)[0]
        t = rec.get("type")
        if t is None:
            add("V3.type-missing", kind, path)
            continue
        if t.get("link") != "HardLink":
            add("V3.type-not-hard", kind, path)
            continue
        tp = type_addr.get(t.get("addr"))
        if tp is None:
            add("V3.type-is-a-copy", kind, f"{path} Type address is no node under Types (ID {t.get('id')})")
        elif not tp.startswith(TYPE_CONTAINER[kind] + "/"):
            add("V3.type-wrong-kind", kind, f"{path} -> {tp}")
    # V4/V5 parent links, single parent, reachability
    incoming = {p: [] for p in nodes}
    for path, rec in nodes.items():
        for cont, links in (rec.get("children") or {}).items():
            for name, lk in links.items():
                target = f"{cont}/{name}"
                if lk.get("link") != "HardLink":
                    add("V4.child-not-hard-link", cont, f"{path} -> {target} ({lk.get('link')})")
                    continue
                trec = nodes.get(target)
                if trec is None or "addr" not in trec:
                    add("V4.child-dangling", cont, f"{path} -> {target}: no such flat node")
                    continue
                if trec["addr"] != lk.get("addr"):
                    add("V4.child-not-same-object", cont, f"{path} -> {target}: different HDF5 object")
                    continue
                incoming[target].append(path)
    root_paths = by_addr.get(root.get("addr"), []) if root and root.get("link") == "HardLink" else []
    root_path = next((p for p in root_paths if p.startswith("Groups/")), None)
    for path, inc in incoming.items():
        if path == root_path:
            if inc:
                add("V5.root-has-parent", "Groups", f"{inc}")
            continue
        if "attrs" not in nodes[path]:
            continue
        kind = path.split("/", 1)[0]
        if len(inc) == 0:
            add("V5.orphan", kind, f"{path} has no parent link")
        elif len(inc) > 1:
            add("V5.several-parents", kind, f"{path} <- {inc}")
    if root_path is not None:
        reach, stack = set(), [root_path]
        while stack:
            p = stack.pop()
            if p in reach or p not in nodes:
                continue
            reach.add(p)
            for cont, links in (nodes[p].get("children") or {}).items():
                for name in links:
                    stack.append(f"{cont}/{name}")
        for path in nodes:
            if path not in reach and "attrs" in nodes[path] and len(incoming.get(path, [])) >= 1:
                add("V5.unreachable", path.split("/", 1)[0], f"{path} not reachable from Root")
    # V6 property groups
    pg_seen = {}
    for path, rec in nodes.items():
        pgs = rec.get("pgs") or {}
        data_children = {n.lower() for n in (rec.get("children") or {}).get("Data", {})}
        for pgname, at in pgs.items():
            pg_seen.setdefault(pgname.lower(), []).append(path)
            ident = at.get("ID")
            if not isinstance(ident, str) or ident.lower() != pgname.lower():
                add("V6.pg-id-mismatch", "PropertyGroup", f"{path} {pgname} ID={ident}")
            props = at.get("Properties")
            plist = []
            if isinstance(props, dict):
                plist = props.get("data") or []
            elif isinstance(props, str):
                plist = [props]
            if isinstance(plist, str):
                plist = [plist]
            for p in plist:
                if isinstance(p, str) and p.startswith("b:"):
                    p = p[2:]
                if not isinstance(p, str) or p.lower() not in data_children:
                    add("V6.pg-property-not-a-child", "PropertyGroup", f"{path} group {pgname} lists {p}")
    for u, paths in pg_seen.items():
        if len(paths) > 1:
            add("V6.pg-uid-twice", "PropertyGroup", f"{u} in {paths}")
    return bad
