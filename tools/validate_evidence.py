#!/venv/bin/python
import json, os, sys, glob
HERE = os.path.dirname(os.path.dirname(os.path.abspath(__file__)))
sys.path.append(os.path.join(HERE, ".deps"))
import jsonschema
schema = json.load(open("/root/.vp/EVIDENCE.schema.json"))
bad = 0
for p in sorted(glob.glob(os.path.join(HERE, "evidence", "*.json"))):
    try:
        jsonschema.validate(json.load(open(p)), schema)
        e = json.load(open(p))
        print("ok ", os.path.basename(p), e["tier"], e["coverage"]["evaluations"], e["coverage"]["distinct_nontrivial"], e.get("verdict"))
    except Exception as exc:
        bad += 1
        print("BAD", p, str(exc)[:300])
sys.exit(1 if bad else 0)
