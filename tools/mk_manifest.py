#!/venv/bin/python
"""Regenerate MANIFEST.json from the table below (single source of truth for the interface)."""
import json, os, sys
HERE = os.path.dirname(os.path.dirname(os.path.abspath(__file__)))
sys.path.insert(0, HERE)
from tools.manifest_table import CHECKS, NOT_APPLICABLE, HOOK_COMMITS

ALL = [f"C{i:02d}" for i in range(1, 21)]
checks = []
for pid in ALL:
    if pid not in CHECKS:
        continue
    c = CHECKS[pid]
    checks.append({
        "property_id": pid,
        "quick_cmd": f"./check {pid} quick",
        "thorough_cmd": f"./check {pid} thorough",
        "evidence_file": f"evidence/{pid}.json",
        "replay_cmd_template": f"./check {pid} --replay {{path}}",
        "engine": "gvm",
        "level_claimed": {"category": c["level"], "text": c["text"], "design_ref": f"DESIGN.md section 4, {pid}"},
        "level_note": c["note"],
        "technique": c["technique"],
    })
na = [{"property_id": p, "reason": NOT_APPLICABLE.get(p, "check not built yet in this round (planned: see DESIGN.md section 4)")} for p in ALL if p not in CHECKS]
m = {
    "version": 1,
    "setup_cmd": "./setup.sh",
    "hooks": {
        "guard": "GEOH5PY_VERIF",
        "enable": "no source hooks: every monitor attaches from the harness (class-attribute wrappers, module globals, file and OS observation); ./check exports GEOH5PY_VERIF=1 and imports geoh5py from /repo's working tree",
        "baseline_off_cmd": "cd /repo && env -u GEOH5PY_VERIF /venv/bin/python -m pytest -ra -q -p no:cacheprovider --timeout=900 --continue-on-collection-errors",
        "source_commits": HOOK_COMMITS,
        "add_only": True,
    },
    "engines": [{"name": "gvm", "path": "gvm/", "serves_properties": sorted(CHECKS), "kind_free_text": "runtime monitors over seeded/enumerated workloads driving the real library: API and raw-HDF5 snapshots, reference models, differential oracles, OS/handle monitors; fan-out to 16 worker processes"}],
    "checks": checks,
    "notes": "Exit 0 held on everything observed; exit 1 + VIOLATION line; exit 2 INCONCLUSIVE (deciding monitor not reached). Known findings: known_findings.json (matched by mechanism signature).",
    "not_applicable": na,
}
json.dump(m, open(os.path.join(HERE, "MANIFEST.json"), "w"), indent=1)
sys.path.append(os.path.join(HERE, ".deps"))
import jsonschema
jsonschema.validate(m, json.load(open("/root/.vp/MANIFEST.schema.json")))
print("MANIFEST.json ok:", len(checks), "checks,", len(na), "not claimed")
