HOOK_COMMITS = []
NOT_APPLICABLE = {}
CHECKS = {
 "C14": {
  "level": "exploration",
  "technique": "runtime monitor: seeded ui.json dictionaries from all template forms; differential InputFile.data / enabled / isValue before write vs after read; strict JSON decoder on the text; promote/demote identity; second round after edits",
  "text": "Hundreds to thousands of ui.json dictionaries of 3-12 forms drawn from every template function (bool, integer, float incl. +-inf, string, choice, multi-choice, file, object, multi-object, data, data-or-value, group, drillhole-group data, range) with seeded optional/enabled/group/groupOptional/dependency members, written self-consistently the way the application writes them, against a workspace (file names with several dots, spaces, non-ASCII) holding the referenced entities: data and enabled/isValue states before write_ui_json must equal those after read_ui_json, the text must parse with a decoder that rejects NaN/Infinity tokens, demoted identifiers must equal the entities' uids and promote(demote(x)) == x, no .geoh5 file may appear in the working directory, and after value edits through set_data_value (numbers, None for optional parameters, data<->value switches) a second write/read must agree again. Held on the counted files only.",
  "note": "NaN excluded (documented). Dictionaries rejected at construction are counted, not judged (C15). Open known finding C14-empty-string. Edits inside switched-off groups / dependencies are not generated (meaning not defined by the format).",
 },
 "C08": {
  "level": "exploration",
  "technique": "runtime monitor: exhaustive partition dtype x magnitude class x kind x entry point with a representability oracle; live / re-opened / raw-dataset comparison; caller-buffer aliasing probe; numpy cast warnings recorded",
  "text": "Every cell of (12 numpy dtypes) x (20 magnitude classes incl. 32-bit boundaries, +-2^31, +-2^40, 2^63-1, sub-normal, +-max, +-inf, NaN, non-integral, floats adjacent to the float no-data code) x (float, integer, boolean, referenced) x (add_data, values setter) is executed with seeded fillers; a representability predicate written from the statement decides: representable and accepted => live read, re-opened read and raw dataset (NaN as float no-data code, int32 with the integer no-data code, int8 0/1, 'Value map' with key 0 = Unknown) must equal what was written, also after the caller overwrites the buffer it passed; not representable => must raise (accepted = silently altered). Unicode strings of all planes, byte strings, string arrays, valid and invalid value maps, arbitrary byte blobs, comments and nested metadata round-trip through close and re-open with UTF-8 checked on the raw dataset. Held on the counted cells only.",
  "note": "A refusal of a representable value is counted, not a violation (the statement obliges rejection of unrepresentable values, not acceptance of every representable one). NaN in boolean data and integers above 2^53 in float data are unclassified. The float equal to the sentinel is excluded (documented exception).",
 },
 "C07": {
  "level": "exploration",
  "technique": "runtime monitor: tag-encoded GeometryModel (unique vertex tags, values a function of the element tag) checked after every operation of seeded removal / padding / masked-copy / failing-call sequences, live and after re-open",
  "text": "Points, curves and surfaces with vertices used by no cell and unordered cells carry float/integer/referenced/boolean vertex and cell data; seeded sequences of add_data (full, short -> padded, too long -> refused), value assignment (same three), remove_vertices / remove_cells with first, last, middle, repeated, unsorted, all-but-one, no-cell-touching and all-cell-touching index sets, masked copies (continuing on the copy), re-opens and deliberately invalid calls are executed; after each step one entry per vertex/cell, each surviving element's value (by tag), cell index range, cell coordinates, padding with the no-data value and, after a raising call, consistency with the state before or after the call are checked, and once more from a fresh read-only Workspace. Held on the counted sequences only.",
  "note": "Only failures the code can really raise are provoked. Face-associated data are not generated (no class exposes faces). Empty index lists are not generated.",
 },
 "C13": {
  "level": "exploration",
  "technique": "runtime monitor: pure-Python point-in-closed-box reference oracle on lattice coordinates (exact faces), tag-encoded data for extent copies, outcome classes counted",
  "text": "Thousands of (object, box, inverse) triples on an integer lattice - boxes enclosing, partial, face-touching, degenerate, disjoint and half-integer, 2- and 3-column extents - are evaluated on point clouds, curves, surfaces (with unused vertices), drillholes (collar rule), block models, octrees, 2-D grids (also rotated/dipped and edited after a first look, with a guard band around faces) and groups. The library's masks must equal the loop oracle (vertices inside the closed box; cells whose vertices all qualify and the vertices those cells use; complement test for inverse); None only when the bounding boxes miss or nothing qualifies; copies by extent must hold exactly the selected coordinates with cells connecting the same coordinates and vertex/cell data following by tag; 3-D grids keep their geometry with outside values blanked; 2-D grids give the smallest covering sub-grid with outside values blanked. Held on the counted triples only.",
  "note": "Lattice inputs make on-face membership exact; rotated grids are kept 1e-6 away from faces. Masked copies of arbitrary masks are C07's.",
 },
 "C16": {
  "level": "exploration",
  "technique": "runtime monitor: tag-encoded inputs (unique x per vertex, values a function of the element tag), coordinate-wise oracle on the merged object live and after re-open, input ApiSnapshot/digest frame check, numpy poison proxy in the merger modules",
  "text": "Lists of 2-5 Points / Curve / Surface / DrapeModel inputs with random vertex counts, cells that skip the last vertex, leave vertices unused or are unordered, and float/integer vertex/cell data present on some inputs only are merged by the real mergers; the merged vertices must be the inputs' vertices in order, every merged cell must connect the same coordinates as its source cell, every (name, association) data set must be the concatenation in input order with NaN / integer no-data where an input lacks it, drape models must keep every input cell centre (in order) and value with two ghost cells per join, the inputs' public records and stored nodes must be unchanged, and the merged object must read the same from a fresh Workspace. Held on the counted merges only.",
  "note": "Open known finding C16-cell-offset-nanmax (offset by max index + 1) is reported as KNOWN-FINDING; it cannot be repaired without editing tests/merger_surface_test.py, which asserts that offset.",
 },
 "C18": {
  "level": "exploration",
  "technique": "runtime monitor: analytic path oracle (independent station directions, pure-Python leg integration) over seeded survey tables; tag-encoded addition histories; numpy poison proxy (uninitialised-read sanitizer) installed in the library modules",
  "text": "Thousands of seeded (collar, survey table, query depth) triples covering single-row tables, first depth 0 and > 0, repeated depths, azimuth wrap-around and vertical holes are checked against the statement's clauses: desurvey(0) is the collar, continuity across every station, displacement inside a leg = depth difference x mean of the two station directions, the last direction of motion continues beyond the final survey, all coordinates finite. Addition histories of depth and interval data (any order, unsorted, collocated within tolerance, with re-opens) must leave every vertex at desurvey(DEPTH), every cell joining desurvey(FROM)/desurvey(TO) and every value on the depth / interval it was given for. A numpy proxy fills ufunc outputs selected with where= but no out= and np.empty with NaN so uninitialised reads are deterministic. Held on the counted tables and histories only.",
  "note": "Azimuth/dip convention from the ANALYST documentation, anchored by convention-free clauses. Repeated depths are generated in the middle of tables only (the last leg keeps a positive length).",
 },
 "C12": {
  "level": "exploration",
  "technique": "runtime monitor: reflective class x target x option sweep; record-by-record differential copy vs source with child-uid map, source ApiSnapshot + file digests before/after, behavioural aliasing probes (in-place and setter edits of the copy, lazy first read of the source)",
  "text": "Every exported concrete object and group class (populated with data of several kinds/associations, property groups whose member order differs from child order, metadata; sources fresh or re-loaded from file) is copied to the same parent, another group and another workspace with copy_children/clear_cache options; nested group subtrees and drillhole groups (both format versions, fast cross-workspace and slow same-workspace paths) likewise. The copy's public record must equal the source's modulo uid/parent, children one-to-one, property groups listing the copied children in source order with fresh uids in the same workspace; the source's public view and file-node digests must be unchanged; in-place edits of arrays returned by the copy and setter edits / removals on the copy must not change the source, live, lazily read, or after re-open. Held on the counted copies only.",
  "note": "Survey link metadata is judged under C20, masks under C07/C13. In-place probes are limited to vertices/values (the arrays users edit).",
 },
 "C11": {
  "level": "fault_enumeration",
  "technique": "runtime monitor with crash-point enumeration: every abort point k of every generated history x close variants; HDF5 open-object accounting, layout validator, live-vs-fresh differential, post-close getter sweep against an open twin",
  "text": "For every generated history all prefixes ops[0:k] are executed and the workspace is then closed by an exception escaping `with Workspace`, a normal with-exit, explicit + double close, an exception escaping / normal exit of fetch_active_workspace(ws,'r+') entered from a closed or read-only workspace, or save_as. Afterwards h5py's open-object count must be back at the baseline, the file must pass the layout validator, a fresh Workspace must show exactly the live snapshot taken before the abort and the reference model of the prefix, every property getter of every previously obtained entity must either return what the open twin returns or raise Geoh5FileClosedError, fetch_children must raise it, and ws.open() must restore the same content. Exhaustive in k per history; histories are sampled.",
  "note": "Process kills are out of scope by the property. Trusted: h5py.h5f.get_obj_count as the leak detector.",
 },
 "C05": {
  "level": "exploration",
  "technique": "runtime monitor: removal histories with reference-drop + gc + listing schedule; clauses over live API, raw file and re-opened file; concatenated-store audit of the closed file",
  "text": "After every removal (victims: data in 0/1/several property groups incl. groups of another association, objects with children, nested groups, concatenated holes and their data; entry point workspace or parent) the driver drops its handles, runs the collector and reads the listings, then checks: no flat node, parent link, child list, property group (live, raw, re-opened), listing or look-up by uid/name yields a victim; every survivor's public record is unchanged; follow-up copies/removals succeed; refused removals (allow_delete off, also on concatenated entities) raise and change neither the public view nor any file node. Held on the counted removals only.",
  "note": "Open known findings (index rows of removed holes stay in the closed file; a hole copy keeps the source hole alive) are reported as KNOWN-FINDING; removal of a subtree with a protected descendant is not generated.",
 },
 "C06": {
  "level": "exploration",
  "technique": "runtime monitor: identifier invariants evaluated after every operation of seeded create/copy/remove/re-create histories over two workspaces; refusal = exception + identical ApiSnapshot + identical node digests",
  "text": "After each operation: uniqueness of uids over the union of the four listings and over the tree, get_entity(uid) is exactly the owner (identity), one live type per uid and one shared type per object/group class; explicit reuse of a uid in use (same kind and cross kind) must be refused with no change of the public view or of any file node; a freed uid (owner removed and collected) must be accepted; same-workspace copies must share no uid with anything existing (entity, children, property groups); copies to/from a second workspace must keep every uid that is free in the target and replace those in use. Flat containers of every closed file are checked for a uid stored twice. Held on the counted operations only.",
  "note": "uuid4 collisions are not injected. Trusted: listings and get_entity are the public view.",
 },
 "C09": {
  "level": "exploration",
  "technique": "runtime monitor: per-node digests (plain h5py on the live handle) before/after every single API call, compared with a footprint computed from the reference model; no-op open/close digests and bytes",
  "text": "Every operation of seeded histories is bracketed by two digest passes over all entity nodes, type nodes and the project header; any created, deleted or changed node (attributes/datasets separately from child-link lists) outside the operation's allowed footprint (target node, parents left/joined, created/deleted nodes, types introduced or no longer used by anything, the data's own type node) is a violation; opening and closing in r/r+/a without mutation must leave all digests (and, for r, the bytes) identical. Held on the counted (operation, node) pairs only.",
  "note": "Footprints come from my TreeModel; lazily swept nodes of parent-removed entities may vanish at any later operation.",
 },
 "C01": {
  "level": "exploration",
  "technique": "runtime monitor: seeded API histories under GC/reference schedules; differential ApiSnapshot live vs fresh re-open, executable TreeModel, raw flat-container audit",
  "text": "Hundreds (quick) to thousands (thorough) of seeded histories of public operations (create every basic object/group class, data of every kind, values, rename, flags, metadata, move, move data, copy, remove through workspace or parent, property-group create/add/remove/delete, comments, files, intermediate close/re-open, listings, gc points) run under gc plans {default, off, every op, seeded} x reference policies {strong, refetch by uid, drop}. At every close the public view taken just before close, the public view of a fresh read-only Workspace and a reference model of what the user's calls determine must agree field by field, and the flat containers must hold exactly the model's entities. Held on the counted histories only.",
  "note": "Trusted: h5py, my ApiSnapshot walker (public getters only) and TreeModel (conservative core). Names within a parent are unique by construction; protected-descendant removals are not generated.",
 },
 "C02": {
  "level": "exploration",
  "technique": "runtime monitor: independent plain-h5py layout validator (object addresses, link classes, reference structure) run on every closed file of seeded histories incl. cross-workspace copies, failing writes and drillhole groups",
  "text": "An independent validator written from the format documents (one project group, containers, Root hard link to a Groups node, names == ID attributes, no uid twice across containers, Type hard link to the same HDF5 object as the node under Types, every child entry a hard link to the flat node, exactly one parent, reachability from Root, property groups listing only data children) is evaluated on every file closed during seeded histories that stress copies into a second workspace, removals, re-parenting of groups/objects/data, refused removals, writes that fail half-way and concatenated drillhole groups. Held on the counted files only.",
  "note": "Validity is the documented layout, not Geoscience ANALYST itself. Known finding C02-parent-removal-leaves-node is reported as KNOWN-FINDING; duplicate-uid requests are exercised under C06, not here.",
 },
 "C17": {
  "level": "exploration",
  "technique": "runtime monitor: independent format-formula oracle + fresh-object differential over enumerated grid shapes and seeded setter histories",
  "text": "Centroids of block models, 2-D grids, octrees and drape models computed by the real classes are compared cell by cell with formulas written from the format document (pure-Python loops), for every shape up to the tier bound and all 125 power-of-two octree triples, with seeded sizes/origins (explicit and default)/rotations/dips; default octrees are checked to tile the base grid exactly once; after random geometry-setter histories centroids must equal those of a fresh object (cache staleness); curve cells<->parts are checked against union-find connectivity. Held on the counted executions only.",
  "note": "Trusted: numpy arithmetic, my reading of the dip convention (anchored by Vertical==dip 90), tolerance 1e-9. First delimiter 0 as the format requires.",
 },
}
