HOOK_COMMITS = []
NOT_APPLICABLE = {}
CHECKS = {
 "C17": {
  "level": "exploration",
  "technique": "runtime monitor: independent format-formula oracle + fresh-object differential over enumerated grid shapes and seeded setter histories",
  "text": "Centroids of block models, 2-D grids, octrees and drape models computed by the real classes are compared cell by cell with formulas written from the format document (pure-Python loops), for every shape up to the tier bound and all 125 power-of-two octree triples, with seeded sizes/origins (explicit and default)/rotations/dips; default octrees are checked to tile the base grid exactly once; after random geometry-setter histories centroids must equal those of a fresh object (cache staleness); curve cells<->parts are checked against union-find connectivity. Held on the counted executions only.",
  "note": "Trusted: numpy arithmetic, my reading of the dip convention (anchored by Vertical==dip 90), tolerance 1e-9. First delimiter 0 as the format requires.",
 },
}
