HOOK_COMMITS = []
NOT_APPLICABLE = {}
CHECKS = {
 "C01": {
  "level": "exploration",
  "technique": "runtime monitor: seeded API histories under GC/reference schedules; differential ApiSnapshot live vs fresh re-open, executable TreeModel, raw flat-container audit",
  "text": "Hundreds (quick) to thousands (thorough) of seeded histories of public operations (create every basic object/group class, data of every kind, values, rename, flags, metadata, move, move data, copy, remove through workspace or parent, property-group create/add/remove/delete, comments, files, intermediate close/re-open, listings, gc points) run under gc plans {default, off, every op, seeded} x reference policies {strong, refetch by uid, drop}. At every close the public view taken just before close, the public view of a fresh read-only Workspace and a reference model of what the user's calls determine must agree field by field, and the flat containers must hold exactly the model's entities. Held on the counted histories only.",
  "note": "Trusted: h5py, my ApiSnapshot walker (public getters only) and TreeModel (conservative core). Names within a parent are unique by construction; protected-descendant removals are not generated.",
 },
 "C02": {
  "level": "exploration",
  "technique": "runtime monitor: independent plain-h5py layout validator (object addresses, link classes, reference structure) run on every closed file of seeded histories incl. cross-workspace copies, failing writes and drillhole groups",
  "text": "An independent validator written from the format documents (one project group, containers, Root hard link to a Groups node, names == ID attributes, no uid twice across containers, Type hard link to the same HDF5 object as the node under Types, every child entry a hard link to the flat node, exactly one parent, reachability from Root, property groups listing only data children) is evaluated on every file closed during seeded histories that stress copies into a second workspace, removals, re-parenting of groups/objects/data, refused removals, writes that fail half-way and concatenated drillhole groups. Held on the counted files only.",
  "note": "Validity is the documented layout, not Geoscience ANALYST itself. Known finding C02-parent-removal-leaves-node is reported as KNOWN-FINDING; duplicate-uid requests are exercised under C06, not here.",
 },
 "C17": {
  "level": "exploration",
  "technique": "runtime monitor: independent format-formula oracle + fresh-object differential over enumerated grid shapes and seeded setter histories",
  "text": "Centroids of block models, 2-D grids, octrees and drape models computed by the real classes are compared cell by cell with formulas written from the format document (pure-Python loops), for every shape up to the tier bound and all 125 power-of-two octree triples, with seeded sizes/origins (explicit and default)/rotations/dips; default octrees are checked to tile the base grid exactly once; after random geometry-setter histories centroids must equal those of a fresh object (cache staleness); curve cells<->parts are checked against union-find connectivity. Held on the counted executions only.",
  "note": "Trusted: numpy arithmetic, my reading of the dip convention (anchored by Vertical==dip 90), tolerance 1e-9. First delimiter 0 as the format requires.",
 },
}
