"""Regenerates the generated tables of DESIGN.md (between BEGIN/END markers) from known_findings.json and seeded/*/meta.json."""
import glob
import json
import re
import subprocess

ROOT = "/verif"


def findings_tables():
    k = json.load(open(f"{ROOT}/known_findings.json"))["findings"]
    fixed = [f for f in k if f["status"] == "fixed"]
    opened = [f for f in k if f["status"] == "open"]
    log = subprocess.check_output(["git", "-C", "/repo", "log", "--format=%h %s", "43c30a0..HEAD"], text=True).splitlines()
    subj = {ln.split()[0]: ln.split(" ", 1)[1] for ln in log}
    out = ["**Repaired defects** (one unguarded `fix:` commit each in /repo; the repository's 377 tests pass unedited after every one; "
           "entries are `status: fixed` in `known_findings.json` and suppress nothing):", "",
           "| property | commit | commit subject | what failed (as first reported by the check) |", "|---|---|---|---|"]
    for f in sorted(fixed, key=lambda f: (f["property"], f["id"])):
        c = f.get("commit", "")[:7]
        out.append(f"| {f['property']} | `{c}` | {subj.get(c, '').replace('|', '/')} | {f['what_fails'].replace('|', '/')} |")
    listed = {f.get("commit", "")[:7] for f in fixed}
    extra = [c for c in subj if c not in listed and subj[c].startswith("fix:")]
    if extra:
        out += ["", "Follow-up `fix:` commits that complete one of the above (same finding): " + ", ".join(f"`{c}` ({subj[c]})" for c in extra) + "."]
    out += ["", "**Open known findings** (genuine defects recorded, not repaired; the check prints `KNOWN-FINDING` and exits 0; matching is by mechanism signature `clause|op|class|attribute`):", "",
            "| id | property | signature matched | what fails | why not repaired |", "|---|---|---|---|---|"]
    for f in sorted(opened, key=lambda f: f["id"]):
        m = f["match"]
        out.append(f"| {f['id']} | {f['property']} | `{m['clause']}|{m['op']}|{m['cls']}|{m['attr']}` | {f['what_fails'].replace('|', '/')} | {f.get('why_not_fixed', f.get('why', '')).replace('|', '/')} |")
    return "\n".join(out)


def seeded_table():
    out = ["| seeded change | what it does | needs to manifest | caught by (quick tier) | first signatures |", "|---|---|---|---|---|"]
    n = caught = 0
    for m in sorted(glob.glob(f"{ROOT}/seeded/*/meta.json")):
        d = json.load(open(m))
        if not d.get("kept"):
            continue
        n += 1
        caught += bool(d["caught_by"])
        sigs = "; ".join(s for c in d["ran"]["checks"] for s in c["first_signatures"].split(";")[:2] if s)
        title = re.sub(r"^C\d\d mutant \d\s*[-—–]+\s*", "", d["title"], flags=re.I).replace("|", "/")
        out.append(f"| {d['id']} | {title} | {d['needs_to_manifest'][:260].replace('|', '/')} | {', '.join(d['caught_by']) or '**missed**'} | `{sigs[:200].replace('|', '/')}` |")
    out.append("")
    out.append(f"{caught} of {n} kept changes are caught by a quick-tier check on seed 1.")
    return "\n".join(out)


def main():
    p = f"{ROOT}/DESIGN.md"
    s = open(p).read()
    for name, text in (("findings", findings_tables()), ("seeded", seeded_table())):
        a, b = f"<!-- BEGIN:{name} -->", f"<!-- END:{name} -->"
        i, j = s.index(a) + len(a), s.index(b)
        s = s[:i] + "\n" + text + "\n" + s[j:]
    open(p, "w").write(s)
    print("DESIGN.md tables regenerated")


if __name__ == "__main__":
    main()
