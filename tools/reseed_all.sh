#!/bin/sh
# usage: tools/reseed_all.sh [pattern]   -- re-confirms every kept seeded change on the current /repo HEAD (updates meta.json)
# Evidence files are overwritten by these runs: regenerate them from /repo afterwards.
PAT="${1:-C}"
cd /verif/seeded || exit 2
for d in $(ls | grep "^$PAT"); do
  /venv/bin/python - "$d" <<'PY'
import json, sys
d = sys.argv[1]
m = json.load(open(f"/verif/seeded/{d}/meta.json"))
if m.get("kept"):
    prop, n = d.split("-m")
    extra = [c["check"] for c in m["ran"]["checks"] if c["check"] != prop]
    print(prop, n, f"/verif/seeded/{d}", *extra)
PY
done | xargs -P "${JOBS:-3}" -L1 sh -c '/verif/tools/seed_mutant.sh "$@" 2>/dev/null | tail -1' _
