#!/bin/sh
# usage: tools/try_mutant.sh <patch.diff> <tier> <Cxx> [Cxx...]
# Applies the patch in a scratch worktree of /repo's HEAD (never in /repo), runs the checks against it, removes it.
PATCH="$1"; TIER="$2"; shift 2
WT=$(mktemp -d /tmp/mw.XXXXXX)
rmdir "$WT"
git -C /repo worktree add -q --detach "$WT" HEAD || exit 3
if ! git -C "$WT" apply "$PATCH" 2>/dev/null && ! git -C "$WT" apply --3way "$PATCH"; then echo "PATCH DOES NOT APPLY"; git -C /repo worktree remove --force "$WT"; exit 4; fi
for P in "$@"; do
  GVM_REPO="$WT" ./check "$P" "$TIER" > "$WT.out" 2>&1; RC=$?
  echo "== $P rc=$RC $(grep -c '^VIOLATION' "$WT.out") violation lines"
  grep -A1 "^VIOLATION" "$WT.out" | grep signature | head -8
  grep "^INCONCLUSIVE" "$WT.out" | head -3 | cut -c1-300
done
rm -f "$WT.out"
git -C /repo worktree remove --force "$WT"
git -C /verif checkout -- evidence 2>/dev/null
