#!/bin/sh
# usage: tools/seed_mutant.sh <Cxx> <n> <source dir with patch.diff demo.py notes.md> [extra checks...]
# Confirms one seeded change on the CURRENT /repo HEAD in a scratch worktree and stores it as /verif/seeded/<Cxx>-m<n>/ :
#   demo passes without / fails with the patch, the repository's own suite still passes with it, what ./check says.
P="$1"; N="$2"; SRC="$3"; shift 3
ID="$P-m$N"
OUT=/verif/seeded/$ID
WT=$(mktemp -d /tmp/ms.XXXXXX); rmdir "$WT"
git -C /repo worktree add -q --detach "$WT" HEAD || exit 3
mkdir -p "$OUT"
PATCH="$SRC/patch.diff"
[ -f "$SRC/patch_ported.diff" ] && PATCH="$SRC/patch_ported.diff"
run_demo() { (cd "$WT" && PYTHONPATH="$WT" PYTHONDONTWRITEBYTECODE=1 timeout 600 /venv/bin/python "$SRC/demo.py" > "$WT.demo" 2>&1; echo $?); }
BASE_RC=$(run_demo)
APPLY=plain
if ! git -C "$WT" apply "$PATCH" 2>/dev/null; then
  if git -C "$WT" apply --3way "$PATCH" 2>/dev/null; then APPLY=3way; else APPLY=failed; fi
fi
if [ "$APPLY" = failed ]; then
  echo "$ID: PATCH DOES NOT APPLY on $(git -C /repo rev-parse --short HEAD)"
  git -C /repo worktree remove --force "$WT"; rm -f "$WT.demo"; rmdir "$OUT" 2>/dev/null; exit 4
fi
git -C "$WT" diff HEAD > "$OUT/patch.diff"
MUT_RC=$(run_demo)
tail -5 "$WT.demo" > "$OUT/demo_output_with_patch.txt"
(cd "$WT" && /venv/bin/python -m pytest -q -p no:cacheprovider --basetemp="$WT.bt" --timeout=900 > "$WT.suite" 2>&1)
SUITE=$(tail -1 "$WT.suite")
rm -rf "$WT.bt"
cp "$SRC/demo.py" "$OUT/demo.py"
cp "$SRC/notes.md" "$OUT/notes.md"
RES=""
for C in "$P" "$@"; do
  GVM_REPO="$WT" /verif/check "$C" quick > "$WT.out" 2>&1; RC=$?
  SIGS=$(grep -A1 "^VIOLATION" "$WT.out" | grep signature | sed 's/^ *signature: //' | head -6 | tr '\n' ';')
  RES="$RES{\"check\": \"$C\", \"tier\": \"quick\", \"exit\": $RC, \"violation_lines\": $(grep -c '^VIOLATION' "$WT.out"), \"first_signatures\": \"$SIGS\"},"
done
RES="[${RES%,}]"
/venv/bin/python - "$OUT/meta.json" "$P" "$N" "$APPLY" "$BASE_RC" "$MUT_RC" "$SUITE" "$RES" <<'EOF'
import json, subprocess, sys
out, prop, n, how, base_rc, mut_rc, suite, res = sys.argv[1:]
notes = open(out.replace("meta.json", "notes.md")).read()
def section(title):
    import re
    m = re.search(r"^##[^\n]*" + title + r"[^\n]*\n(.*?)(?=^## |\Z)", notes, re.S | re.M | re.I)
    return " ".join(m.group(1).split())[:900] if m else ""
meta = {
    "id": f"{prop}-m{n}", "property": prop,
    "title": notes.splitlines()[0].lstrip("# ").strip(),
    "needs_to_manifest": section("needed") or section("manifest"),
    "confirmed_on_repo_commit": subprocess.check_output(["git", "-C", "/repo", "rev-parse", "--short", "HEAD"], text=True).strip(),
    "patch_applied": how,
    "ran": {
        "demo_without_patch_exit": int(base_rc), "demo_with_patch_exit": int(mut_rc),
        "repository_suite_with_patch": suite,
        "checks": json.loads(res),
    },
}
meta["kept"] = meta["ran"]["demo_without_patch_exit"] == 0 and meta["ran"]["demo_with_patch_exit"] != 0 and " passed" in suite and "failed" not in suite
meta["caught_by"] = [c["check"] for c in meta["ran"]["checks"] if c["exit"] == 1]
json.dump(meta, open(out, "w"), indent=1)
print(meta["id"], "kept" if meta["kept"] else "NOT-KEPT", "apply=" + how, "demo", base_rc, "->", mut_rc, "|", suite, "| caught by", meta["caught_by"])
EOF
rm -f "$WT.out" "$WT.demo" "$WT.suite"
git -C /repo worktree remove --force "$WT"
