"""Debug helper: run the case stored in a replay file in-process (GVM_TRACE=1 for step traces)."""
import importlib, json, sys, traceback
sys.path.insert(0, "/verif")
from gvm.core import Rec, seed_all
r = json.load(open(sys.argv[1]))
mod = importlib.import_module("gvm.props." + r["property"].lower())
case = r["case"]
seed_all(case["seed"])
rec = Rec(r["property"])
try:
    mod.run_case(case, rec)
except Exception:
    traceback.print_exc()
for f in rec.failures[:40]:
    print("FAIL", f["sig"], f["detail"][:400])
