"""Debug helper: run the case stored in a replay file in-process (GVM_TRACE=1 for step traces)."""
import importlib, json, os, sys, traceback
if os.environ.get("PYTHONHASHSEED") != "0":  # the checks run with a fixed hash seed: set iteration order is part of a case
    os.environ["PYTHONHASHSEED"] = "0"
    os.environ.setdefault("PYTHONPATH", os.environ.get("GVM_REPO", "/repo"))
    os.execv(sys.executable, [sys.executable] + sys.argv)
sys.path.insert(0, "/verif")
from gvm.core import Rec, seed_all
r = json.load(open(sys.argv[1]))
mod = importlib.import_module("gvm.props." + r["property"].lower())
case = r["case"]
seed_all(case["seed"])
rec = Rec(r["property"])
try:
    mod.run_case(case, rec)
except Exception:
    traceback.print_exc()
for f in rec.failures[:40]:
    print("FAIL", f["sig"], f["detail"][:400])
