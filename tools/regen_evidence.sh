#!/bin/sh
cd /verif
for P in C01 C02 C03 C04 C05 C06 C07 C08 C09 C10 C11 C12 C13 C14 C15 C16 C17 C18 C19 C20; do
  VERIF_SEED=1 ./check $P quick > /tmp/ev_$P.out 2>&1; echo "$P rc=$? $(tail -1 /tmp/ev_$P.out | cut -c1-160)"
done
