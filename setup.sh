#!/bin/sh
# Offline setup: third-party helpers for the monitors go beside the repository's interpreter.
set -e
cd "$(dirname "$0")"
if [ ! -d .deps/icontract ]; then
  PIP_NO_INDEX=1 /venv/bin/pip install -q --no-index --find-links /opt/veriftools/wheels \
     --target .deps icontract jsonschema >/dev/null 2>&1 || \
  PIP_NO_INDEX=1 /venv/bin/pip install --no-index --find-links /opt/veriftools/wheels --target .deps icontract jsonschema
fi
/venv/bin/python -c "import sys; sys.path.insert(0,'.deps'); import icontract, jsonschema; print('deps ok')"
